"""Shared plumbing: repo access, obligations, findings, evidence, exit codes."""

from __future__ import annotations

import ast
import hashlib
import json
import os
import sys
import time
import traceback
from dataclasses import dataclass, field
from pathlib import Path
from typing import Any, Callable, Iterable, Optional

VERIF = Path(__file__).resolve().parent.parent
DEFAULT_REPO = Path(os.environ.get("ZORG_REPO", "/repo"))
SRC = "src/zorg"
GENERATED = (
    "grammar/zorg_file/ZorgFileLexer.py",
    "grammar/zorg_file/ZorgFileParser.py",
    "grammar/zorg_file/ZorgFileListener.py",
    "grammar/zorg_query/ZorgQueryLexer.py",
    "grammar/zorg_query/ZorgQueryParser.py",
    "grammar/zorg_query/ZorgQueryListener.py",
)


class AnalysisError(Exception):
    """The analysis cannot decide (vanished anchor, unrecognised shape)."""


class Repo:
    """Read-only view of the repository's working tree, with optional overlay.

    The overlay (relative path -> source text) is how the self-test applies
    single-edit variants in memory; nothing is ever written under /repo.
    """

    def __init__(self, root: Path = DEFAULT_REPO, overlay: Optional[dict[str, str]] = None):
        self.root = Path(root)
        self.overlay = dict(overlay or {})
        self._trees: dict[str, ast.Module] = {}

    def exists(self, rel: str) -> bool:
        return rel in self.overlay or (self.root / rel).is_file()

    def read(self, rel: str) -> str:
        if rel in self.overlay:
            return self.overlay[rel]
        p = self.root / rel
        if not p.is_file():
            raise AnalysisError(f"anchor file vanished: {rel}")
        return p.read_text(encoding="utf-8")

    def tree(self, rel: str) -> ast.Module:
        if rel not in self._trees:
            try:
                self._trees[rel] = ast.parse(self.read(rel), filename=rel)
            except SyntaxError as e:  # the variant does not even compile
                raise AnalysisError(f"cannot parse {rel}: {e}") from e
        return self._trees[rel]

    def py_files(self) -> list[str]:
        """All hand-written python modules under src/zorg (relative paths)."""
        out = set()
        base = self.root / SRC
        for p in base.rglob("*.py"):
            out.add(str(p.relative_to(self.root)))
        for rel in self.overlay:
            if rel.startswith(SRC) and rel.endswith(".py"):
                out.add(rel)
        gen = {f"{SRC}/{g}" for g in GENERATED}
        return sorted(r for r in out if r not in gen)

    def digest(self, rels: Iterable[str]) -> str:
        h = hashlib.sha256()
        for r in sorted(rels):
            h.update(r.encode())
            h.update(self.read(r).encode())
        return h.hexdigest()[:16]


def norm(node: ast.AST | str) -> str:
    """Normalised source text of a construct (used in finding keys)."""
    if isinstance(node, str):
        return " ".join(node.split())
    return " ".join(ast.unparse(node).split())


@dataclass
class Finding:
    rule: str
    key: str  # rule|symbol|construct -- never a line number
    message: str
    file: str = ""
    line: int = 0
    detail: dict = field(default_factory=dict)


@dataclass
class Obligation:
    rule: str
    subject: str
    status: str  # proved | refuted | undecided
    note: str = ""


class Run:
    """Collects the obligations of one property check and renders the verdict."""

    def __init__(self, pid: str, tier: str, repo: Repo, explanation: str = ""):
        self.pid = pid
        self.tier = tier
        self.repo = repo
        self.t0 = time.time()
        self.obligations: list[Obligation] = []
        self.findings: list[Finding] = []
        self.errors: list[str] = []
        self.samples: list[Any] = []
        self.units: dict[str, Any] = {}
        self.assumptions: list[str] = []
        self.trusted: list[str] = []
        self.explanation = explanation
        self.rules: dict[str, str] = {}
        self.floors: list[tuple[str, int, int]] = []

    # -- recording -----------------------------------------------------
    def rule(self, rid: str, text: str) -> None:
        self.rules[rid] = text

    def proved(self, rule: str, subject: str, note: str = "") -> None:
        self.obligations.append(Obligation(rule, subject, "proved", note))

    def refuted(
        self,
        rule: str,
        symbol: str,
        construct: ast.AST | str,
        message: str,
        *,
        file: str = "",
        node: Optional[ast.AST] = None,
        detail: Optional[dict] = None,
    ) -> None:
        key = f"{rule}|{symbol}|{norm(construct)}"
        if any(f.key == key for f in self.findings):
            return  # the same construct refuted again on another path / alternative
        line = getattr(node, "lineno", 0) if node is not None else (
            getattr(construct, "lineno", 0) if isinstance(construct, ast.AST) else 0
        )
        self.obligations.append(Obligation(rule, f"{symbol}: {norm(construct)[:120]}", "refuted", message))
        self.findings.append(Finding(rule, key, message, file, line, detail or {}))

    def adopt(self, other: "Run", rules: tuple, as_rule: str) -> int:
        """Take over another property's obligations for `rules` as obligations of `as_rule` here (a property that
        is end-to-end depends on the stage the other property decides).  Keys keep the construct, not the rule id."""
        n = 0
        for o in other.obligations:
            if o.rule in rules and o.status == "proved":
                self.proved(as_rule, f"[{o.rule}] {o.subject}")
                n += 1
        for f in other.findings:
            if f.rule in rules:
                n += 1
                key = as_rule + f.key[len(f.rule):]
                if not any(x.key == key for x in self.findings):
                    self.obligations.append(Obligation(as_rule, f"[{f.rule}] {f.key.split('|', 1)[1][:120]}", "refuted", f.message))
                    self.findings.append(Finding(as_rule, key, f.message, f.file, f.line, f.detail))
        for o in other.obligations:
            if o.rule in rules and o.status == "undecided":
                self.undecided(as_rule, f"[{o.rule}] {o.subject}", o.note)
                n += 1
        return n

    def undecided(self, rule: str, subject: str, why: str) -> None:
        self.obligations.append(Obligation(rule, subject, "undecided", why))
        self.errors.append(f"{rule}: {subject}: {why}")

    def check(self, rule: str, subject: str, ok: bool, symbol: str, construct, message: str, **kw) -> bool:
        pend, self.pending_imprecise = getattr(self, "pending_imprecise", []), []
        if ok:
            self.proved(rule, subject)
        elif pend:
            # the abstract runs this verdict rests on left the modelled subset: not a refutation, an unknown
            self.undecided(rule, symbol, f"{subject}: " + "; ".join(pend[:2]))
        else:
            self.refuted(rule, symbol, construct, message, **kw)
        return ok

    def watch(self, interp) -> None:
        """Collect the imprecision notes of every top-level abstract run of `interp` until the next check(): a check that fails while
        notes are pending is reported as undecided (exit 2), never as a violation."""
        self.pending_imprecise = []

        def sink(notes, run=self):
            for n in notes:
                if n not in run.pending_imprecise:
                    run.pending_imprecise.append(n)

        interp.imprecision_sink = sink

    def floor(self, what: str, got: int, minimum: int) -> None:
        """Instance floor: fewer instances than confirmed by hand => exit 2."""
        self.floors.append((what, got, minimum))
        if got < minimum:
            self.errors.append(
                f"instance floor: {what}: found {got}, expected at least {minimum} "
                "(rule would pass vacuously)"
            )

    def sample(self, obj: Any) -> None:
        if len(self.samples) < 40:
            self.samples.append(obj)

    # -- verdict ---------------------------------------------------------
    def finish(self) -> int:
        known = load_known_findings()
        open_known = {k["key"]: k for k in known if k["property"] == self.pid and k.get("status", "open") == "open"}
        fixed_known = {k["key"]: k for k in known if k["property"] == self.pid and k.get("status") == "fixed"}
        new, listed = [], []
        seen = set()
        for f in self.findings:
            if f.key in seen:
                continue
            seen.add(f.key)
            (listed if f.key in open_known else new).append(f)
        stale = [k for k in open_known if k not in seen]
        wall = time.time() - self.t0

        n_ob = len(self.obligations)
        n_ok = sum(1 for o in self.obligations if o.status == "proved")
        distinct = len({(o.rule, o.subject) for o in self.obligations})
        ev = {
            "property_id": self.pid,
            "tier": self.tier,
            "seed": int(os.environ.get("VERIF_SEED", "0") or 0),
            "level": "other",
            "coverage": {
                "explanation": self.explanation
                or "static analysis of /repo's working tree (AST / path / table / automaton rules); "
                "no zorg code is imported or executed",
                "obligations": n_ob,
                "discharged": n_ok,
                "refuted": sum(1 for o in self.obligations if o.status == "refuted"),
                "undecided": sum(1 for o in self.obligations if o.status == "undecided"),
                "evaluations": max(n_ob, 1),
                "distinct_nontrivial": distinct,
                "rule": "one evaluation per proof obligation generated by the rules listed under 'rules' "
                "from the current source; distinct = distinct (rule, subject) pairs; every obligation "
                "is non-trivial in that it is decided by analysing a construct found in the source",
                "samples": self.samples[:40] or [dict(rule=o.rule, subject=o.subject, status=o.status) for o in self.obligations[:10]],
                "checker_cmd": f"/venv/bin/python -m zverif.run {self.pid} --tier {self.tier}",
                "trusted_base": self.trusted
                or ["CPython ast", "antlr4 runtime ATNDeserializer", "semantics of the library calls named in DESIGN.md section 2"],
                "rules": self.rules,
                "units_analysed": self.units,
                "instance_floors": [dict(what=w, found=g, minimum=m) for w, g, m in self.floors],
                "obligation_list": [dict(rule=o.rule, subject=o.subject, status=o.status, note=o.note) for o in self.obligations],
                "exhaustive": False,
            },
            "assumptions": self.assumptions,
            "wall_s": round(wall, 3),
            "violations": len(new),
            "known_findings": [dict(key=f.key, message=f.message, file=f.file, line=f.line, what_fails=open_known[f.key].get("what_fails", "")) for f in listed],
            "stale_known_findings": stale,
            "fixed_entries": sorted(fixed_known),
            "analysis_errors": self.errors,
            "repo_root": str(self.repo.root),
        }
        evdir = Path(os.environ.get("ZVERIF_EVIDENCE_DIR", str(VERIF / "evidence")))
        evdir.mkdir(parents=True, exist_ok=True)
        (evdir / f"{self.pid}.json").write_text(json.dumps(ev, indent=1, default=str) + "\n")

        for f in listed:
            print(f"KNOWN-FINDING: property={self.pid} {f.rule} {open_known[f.key].get('what_fails', f.message)} [{f.file}:{f.line}]")
        rc = 0
        if new:
            rdir = evdir / "replay"
            rdir.mkdir(exist_ok=True)
            for i, f in enumerate(new):
                rp = rdir / f"{self.pid}-{i}.json"
                rp.write_text(json.dumps(dict(property=self.pid, rule=f.rule, key=f.key, message=f.message, file=f.file, line=f.line, detail=f.detail), indent=1, default=str) + "\n")
                print(f"  {f.file}:{f.line}: [{f.rule}] {f.message}")
                print(f"    key: {f.key}")
                print(f"VIOLATION property={self.pid} replay={rp}")
            rc = 1
        if self.errors and rc == 0:
            for e in self.errors:
                print(f"ANALYSIS-ERROR property={self.pid} {e}")
            rc = 2
        elif self.errors:
            for e in self.errors:
                print(f"  (also undecided) {e}")
        print(
            f"{self.pid} [{self.tier}] obligations={n_ob} proved={n_ok} "
            f"known={len(listed)} new={len(new)} undecided={len(self.errors)} wall={wall:.2f}s"
        )
        return rc


def collect(pid: str, repo: Repo, tier: str = "quick") -> dict:
    """Run a property's checker on ``repo`` (possibly an in-memory overlay) without writing evidence."""
    import importlib

    mod = importlib.import_module(f"zverif.props.{pid.lower()}")
    run = Run(pid, tier, repo)
    try:
        mod.check(run)
    except AnalysisError as e:
        run.errors.append(str(e))
    except Exception as e:  # checker bug
        run.errors.append(f"internal checker error: {type(e).__name__}: {e}")
    known = {k["key"] for k in load_known_findings() if k["property"] == pid and k.get("status", "open") == "open"}
    new = [f for f in run.findings if f.key not in known]
    return dict(pid=pid, new=[dict(rule=f.rule, key=f.key, message=f.message) for f in new], known=[f.key for f in run.findings if f.key in known],
                errors=list(run.errors), obligations=len(run.obligations))


def _thorough_extras(run: "Run") -> None:
    """Thorough tier: validate the checker itself on the in-memory variant corpus (both directions), on the committed
    seeded changes (must be reported) and on the committed behaviour-preserving refactors (must stay silent and decided),
    each applied as an overlay of the tree under test when its patch still applies textually (otherwise skipped, never failed)."""
    from . import selftest

    res = selftest.run([run.pid], jobs=int(os.environ.get("ZVERIF_JOBS", "16")), root=str(run.repo.root), benign=True)
    ok = [r for r in res if r["status"] == "ok"]
    failed = [r for r in res if r["status"] in ("FAILED", "UNDECIDED")]
    run.units["selftest"] = dict(variants=len(res), ok=len(ok), failed=[r["id"] for r in failed], skipped=[r["id"] for r in res if r["status"] == "skipped"],
                                 detail=[dict(id=r["id"], expect=r.get("expect"), status=r["status"], rules=r.get("rules")) for r in res])
    for r in ok:
        run.proved("selftest", f"variant {r['id']} ({r.get('expect')}): checker answered as expected {r.get('rules')}")
    for r in failed:
        run.errors.append(f"self-test: variant {r['id']} (expected {r.get('expect')}) was answered with rules {r.get('rules')} -- the checker is not trustworthy for this rule")


def load_known_findings() -> list[dict]:
    p = VERIF / "known_findings.json"
    if not p.exists():
        return []
    data = json.loads(p.read_text())
    return data.get("findings", [])


def run_check(pid: str, tier: str, fn: Callable[[Run], None], repo: Optional[Repo] = None) -> int:
    repo = repo or Repo()
    run = Run(pid, tier, repo)
    try:
        fn(run)
        if tier == "thorough":
            _thorough_extras(run)
    except AnalysisError as e:
        run.errors.append(f"{e}")
    except Exception as e:  # a checker bug is analysis-broken, never a violation
        tb = traceback.format_exc(limit=6)
        run.errors.append(f"internal checker error: {type(e).__name__}: {e}\n{tb}")
    try:
        return run.finish()
    except Exception as e:
        print(f"ANALYSIS-ERROR property={pid} cannot write evidence: {e}")
        return 2
