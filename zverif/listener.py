"""Engine L: typestate of a parse-tree listener, driven by the grammar's automaton.

The set of walker event sequences of a (non-recursive) grammar is explored
rule by rule over the ATN-derived rule NFAs.  At every rule boundary the
listener's ``enterR`` / ``exitR`` bodies are interpreted abstractly (engine A)
on the abstract listener state.  Between handlers the state is kept as an
immutable *tree* (snapshot of the listener object): scalar fields are kept
exactly (trace partitioning), container fields are sets of provenance-labelled
values that are *joined* (set union) when two states agree on all scalars.

Provenance labels are stamped by the driver from the grammar position of the
context whose text a handler reads; when the driver leaves a scope-delimiting
rule the labels of that scope are rewritten to ``CLOSED:<label>``.
"""

from __future__ import annotations

import ast
from typing import Any, Callable, Iterable, Optional

from .absint import Interp, Raised, State
from .absval import BoundV, CharSet, EnumV, HObj, OneOf, Opaque, Ref, SeqStr, Text, Unknown, is_concrete, new_text
from .core import AnalysisError
from .grammar import ParserGrammar
from .pymodel import ClassInfo, PyModel

BIG = 3  # integers saturate here


# ------------------------------------------------------------------ snapshots
def snap(v: Any, st: State, seen: Optional[set] = None) -> Any:
    seen = seen if seen is not None else set()
    if isinstance(v, Ref):
        if v.addr in seen:
            return ("cycle",)
        seen = seen | {v.addr}
        h = st.obj(v)
        if h.kind == "obj":
            return ("obj", h.cls, tuple(sorted((k, snap(x, st, seen)) for k, x in h.fields.items())))
        if h.kind in ("list", "set"):
            return ("set", frozenset(snap(x, st, seen) for x in h.items))
        if h.kind == "dict":
            items = []
            for k, x in h.fields.items():
                if k == "__abstract__":
                    items.append(("__abstract__", ("set", frozenset(("pair", snap(a, st, seen), snap(b, st, seen)) for a, b in x))))
                else:
                    items.append((k, snap(x, st, seen)))
            return ("dict", tuple(sorted(items, key=lambda t: repr(t[0]))))
    if isinstance(v, Text):
        return ("text", v.labels, v.kind)
    if isinstance(v, Opaque):
        return ("opaque", v.cls, v.tag)
    if isinstance(v, OneOf):
        alts = frozenset(snap(a, st, seen) for a in v.alts)
        return next(iter(alts)) if len(alts) == 1 else ("maybe", alts)
    if isinstance(v, bool) or v is None:
        return v
    if isinstance(v, int):
        return min(v, BIG)
    if isinstance(v, (str, EnumV, SeqStr, CharSet)):
        return v
    if isinstance(v, tuple):
        return ("tuple", tuple(snap(x, st, seen) for x in v))
    if isinstance(v, Unknown):
        return ("unknown", v.why)
    return ("other", repr(v))


def rebuild(tree: Any, st: State) -> Any:
    if isinstance(tree, tuple) and tree:
        tag = tree[0]
        if tag == "obj":
            r = st.alloc(HObj("obj", cls=tree[1]))
            st.obj(r).fields = {k: rebuild(x, st) for k, x in tree[2]}
            return r
        if tag == "set":
            return st.alloc(HObj("list", items=[rebuild(x, st) for x in sorted(tree[1], key=repr)], setlike=True))
        if tag == "dict":
            r = st.alloc(HObj("dict"))
            for k, x in tree[1]:
                if k == "__abstract__":
                    st.obj(r).fields[k] = [(rebuild(p[1], st), rebuild(p[2], st)) for p in sorted(x[1], key=repr)]
                else:
                    st.obj(r).fields[k] = rebuild(x, st)
            return r
        if tag == "text":
            return new_text(tree[1], tree[2])
        if tag == "opaque":
            return Opaque(tree[1], tree[2])
        if tag == "maybe":
            return OneOf(tuple(rebuild(x, st) for x in sorted(tree[1], key=repr)))
        if tag == "tuple":
            return tuple(rebuild(x, st) for x in tree[1])
        if tag == "unknown":
            return Unknown(tree[1])
        if tag in ("cycle", "other"):
            return Unknown(str(tree))
    return tree


def _is_slot(tree: Any) -> bool:
    """None / labelled value / enum member / string constant: joined into a lazy OneOf.
    Booleans and integers (flags, counters) stay exact: they steer the listener."""
    if tree is None or isinstance(tree, (str, EnumV)):
        return True
    return isinstance(tree, tuple) and bool(tree) and tree[0] in ("text", "opaque", "maybe")


def skeleton(tree: Any) -> Any:
    """The exact part of a tree: containers of labelled values and None-or-labelled
    scalar slots are wildcarded (they are joined)."""
    if isinstance(tree, tuple) and tree:
        tag = tree[0]
        if tag == "obj":
            return ("obj", tree[1], tuple((k, ("slot",) if _is_slot(x) else skeleton(x)) for k, x in tree[2]))
        if tag == "set":
            return ("set",)
        if tag == "dict":
            return ("dict", tuple((k, ("slot",) if _is_slot(x) else skeleton(x)) for k, x in tree[1] if k != "__abstract__"))
        if tag == "tuple":
            return ("tuple", tuple(skeleton(x) for x in tree[1]))
    return tree


def _alts(t: Any) -> frozenset:
    return t[1] if isinstance(t, tuple) and t and t[0] == "maybe" else frozenset([t])


def join(a: Any, b: Any) -> Any:
    if a == b:
        return a
    if _is_slot(a) and _is_slot(b):
        u = _alts(a) | _alts(b)
        return next(iter(u)) if len(u) == 1 else ("maybe", u)
    if isinstance(a, tuple) and a and isinstance(b, tuple) and b and a[0] == b[0]:
        tag = a[0]
        if tag == "obj":
            return ("obj", a[1], tuple((k, join(x, y)) for (k, x), (_, y) in zip(a[2], b[2])))
        if tag == "set":
            return ("set", a[1] | b[1])
        if tag == "dict":
            da, db = dict(a[1]), dict(b[1])
            out = []
            for k in sorted(set(da) | set(db), key=repr):
                if k in da and k in db:
                    out.append((k, join(da[k], db[k])))
                else:
                    out.append((k, da.get(k, db.get(k))))
            return ("dict", tuple(out))
        if tag == "tuple":
            return ("tuple", tuple(join(x, y) for x, y in zip(a[1], b[1])))
    return a


def relabel(tree: Any, fn: Callable[[str], str]) -> Any:
    if isinstance(tree, frozenset):
        return frozenset(relabel(x, fn) for x in tree)
    if isinstance(tree, tuple) and tree:
        tag = tree[0]
        if tag == "text":
            return ("text", frozenset(fn(l) for l in tree[1]), tree[2])
        if tag == "opaque":
            return ("opaque", tree[1], ",".join(fn(l) for l in tree[2].split(",")) if tree[2] else "")
        return tuple(relabel(x, fn) if isinstance(x, (tuple, frozenset)) else x for x in tree)
    return tree


def labels_in(tree: Any) -> set[str]:
    out: set[str] = set()
    if isinstance(tree, frozenset):
        for x in tree:
            out |= labels_in(x)
    elif isinstance(tree, tuple) and tree:
        if tree[0] == "text":
            return set(tree[1])
        if tree[0] == "opaque":
            return set(tree[2].split(",")) - {""}
        for x in tree:
            if isinstance(x, (tuple, frozenset)):
                out |= labels_in(x)
    return out


def texts_in(tree: Any) -> set:
    """All ("text", labels, kind) / ("opaque", cls, tag) leaves."""
    out: set = set()
    if isinstance(tree, frozenset):
        for x in tree:
            out |= texts_in(x)
    elif isinstance(tree, tuple) and tree:
        if tree[0] in ("text", "opaque"):
            return {tree}
        for x in tree:
            if isinstance(x, (tuple, frozenset)):
                out |= texts_in(x)
    return out


def merge(trees: Iterable[Any]) -> list:
    buckets: dict[Any, Any] = {}
    for t in trees:
        k = skeleton(t)
        buckets[k] = join(buckets[k], t) if k in buckets else t
    return list(buckets.values())


# --------------------------------------------------------------------- walker
class TreeTable:
    """Interns trees so the fixpoint machinery works on small integers."""

    def __init__(self) -> None:
        self.ids: dict[Any, int] = {}
        self.trees: list[Any] = []
        self._skel: dict[int, int] = {}
        self._join: dict[tuple[int, int], int] = {}
        self._relabel: dict[tuple[int, str], int] = {}

    def intern(self, tree: Any) -> int:
        i = self.ids.get(tree)
        if i is None:
            i = len(self.trees)
            self.ids[tree] = i
            self.trees.append(tree)
        return i

    def tree(self, i: int) -> Any:
        return self.trees[i]

    def skel(self, i: int) -> int:
        k = self._skel.get(i)
        if k is None:
            k = self.intern(("skel", skeleton(self.trees[i])))
            self._skel[i] = k
        return k

    def join(self, a: int, b: int) -> int:
        if a == b:
            return a
        key = (a, b) if a < b else (b, a)
        r = self._join.get(key)
        if r is None:
            r = self.intern(join(self.trees[a], self.trees[b]))
            self._join[key] = r
        return r

    def relabel(self, i: int, name: str, fn: Callable[[str], str]) -> int:
        key = (i, name)
        r = self._relabel.get(key)
        if r is None:
            r = self.intern(relabel(self.trees[i], fn))
            self._relabel[key] = r
        return r

    def merge(self, ids: Iterable[int]) -> list[int]:
        buckets: dict[int, int] = {}
        for i in ids:
            k = self.skel(i)
            buckets[k] = self.join(buckets[k], i) if k in buckets else i
        return list(buckets.values())


class Walker:
    def __init__(
        self,
        model: PyModel,
        grammar: ParserGrammar,
        listener_cls: str,
        interp: Interp,
        label_for: Callable[[str, str, str, dict], str],
        close_on_exit: dict[str, Callable[[str], str]],
        max_trees: int = 3000,
    ):
        self.model = model
        self.g = grammar
        self.I = interp
        self.ci: ClassInfo = model.cls(listener_cls)
        self.label_for = label_for
        self.close_on_exit = close_on_exit
        self.max_trees = max_trees
        self.T = TreeTable()
        self.handlers: dict[str, dict[str, str]] = {}
        for nm, m in self.ci.methods.items():
            for kind in ("enter", "exit"):
                if nm.startswith(kind) and len(nm) > len(kind):
                    rule = nm[len(kind):]
                    rule = rule[0].lower() + rule[1:]
                    self.handlers.setdefault(rule, {})[kind] = m.qualname
        self._has: dict[str, bool] = {}
        self.memo: dict = {}
        self.hmemo: dict = {}
        self.pmemo: dict = {}
        self._fsets: dict = {}
        self.state_attr: str = ""
        self.state_cls: Optional[str] = None
        self.raises: list[tuple[str, str, Any]] = []
        self.imprecise: set[str] = set()
        self.cur_label = ""
        self.cur_rule = ""
        self.stats = dict(handler_calls=0, handler_memo_hits=0, frame_memo_hits=0, max_states_at_one_position=0, rules_walked=0, memo_hits=0)
        self.stack: list[str] = []
        self.ordinal_pairs: set[tuple[str, str]] = set()
        self.dead_edges: set[tuple[str, str]] = set()

    def has_handlers(self, rule: str) -> bool:
        if rule not in self._has:
            self._has[rule] = rule in self.handlers or any(r in self.handlers for r in self.g.reach_rules(rule))
        return self._has[rule]

    # -- static read/write sets (frame rule): a handler is a function of the state
    #    fields it mentions; all other fields pass through unchanged
    def field_set(self, qual: str) -> Optional[frozenset]:
        if qual in self._fsets:
            return self._fsets[qual]
        if not self.state_attr or self.state_cls is None:
            self._fsets[qual] = None
            return None
        fields: set[str] = set()
        dynamic = False
        seen: set[str] = set()
        stack = [(qual, "listener")]
        scls = self.model.classes.get(self.state_cls)
        while stack and not dynamic:
            q, role = stack.pop()
            if q in seen or q not in self.model.funcs:
                continue
            seen.add(q)
            fn = self.model.funcs[q].node
            for n in ast.walk(fn):
                if isinstance(n, ast.Call) and isinstance(n.func, ast.Name) and n.func.id in ("getattr", "setattr", "vars", "delattr"):
                    dynamic = True
                if isinstance(n, ast.Attribute) and n.attr == "__dict__":
                    dynamic = True
                if role == "listener":
                    if isinstance(n, ast.Attribute) and isinstance(n.value, ast.Attribute) and n.value.attr == self.state_attr and isinstance(n.value.value, ast.Name) and n.value.value.id == "self":
                        m = self.model.find_method(scls, n.attr) if scls else None
                        if m is not None:
                            stack.append((m.qualname, "state"))
                        else:
                            fields.add(n.attr)
                    elif isinstance(n, ast.Attribute) and n.attr == self.state_attr and isinstance(n.value, ast.Name) and n.value.id == "self":
                        pass
                    if isinstance(n, ast.Call) and isinstance(n.func, ast.Attribute) and isinstance(n.func.value, ast.Name) and n.func.value.id == "self":
                        m = self.model.find_method(self.ci, n.func.attr)
                        if m is not None:
                            stack.append((m.qualname, "listener"))
                    # the state object handed to something else as a whole
                    if isinstance(n, ast.Call):
                        for a in list(n.args) + [k.value for k in n.keywords]:
                            if isinstance(a, ast.Attribute) and a.attr == self.state_attr and isinstance(a.value, ast.Name) and a.value.id == "self":
                                dynamic = True
                else:
                    if isinstance(n, ast.Attribute) and isinstance(n.value, ast.Name) and n.value.id == "self":
                        m = self.model.find_method(scls, n.attr) if scls else None
                        if m is not None:
                            stack.append((m.qualname, "state"))
                        else:
                            fields.add(n.attr)
        self._fsets[qual] = None if dynamic else frozenset(fields)
        return self._fsets[qual]

    def _split(self, tree: Any, F: frozenset):
        """(projection key, rest) of a root tree w.r.t. the state fields F."""
        root_fields = tree[2]
        sidx = next(i for i, (k, _) in enumerate(root_fields) if k == self.state_attr)
        sobj = root_fields[sidx][1]
        inside = tuple((k, v) for k, v in sobj[2] if k in F)
        other_root = tuple((k, v) for k, v in root_fields if k != self.state_attr)
        return (other_root, inside), sidx, sobj

    def _apply(self, tree: Any, out_tree: Any, F: frozenset) -> Any:
        """Graft the F-fields (and non-state root fields) of ``out_tree`` onto ``tree``."""
        _, sidx, sobj = self._split(tree, F)
        _, _, osobj = self._split(out_tree, F)
        newvals = dict((k, v) for k, v in osobj[2] if k in F)
        merged = tuple((k, newvals.get(k, v)) if k in F else (k, v) for k, v in sobj[2])
        # fields created by the handler that did not exist before
        have = {k for k, _ in merged}
        merged = merged + tuple((k, v) for k, v in osobj[2] if k in F and k not in have)
        merged = tuple(sorted(merged))
        new_root = tuple((k, ("obj", sobj[1], merged)) if k == self.state_attr else (k, dict(out_tree[2]).get(k, v)) for k, v in tree[2])
        return ("obj", tree[1], new_root)

    # -- handler invocation
    def call_handler(self, qual: str, rule: str, label: str, ids: list[int]) -> list[int]:
        out: list[int] = []
        F = self.field_set(qual)
        for tid in ids:
            mk = (qual, label, tid)
            if mk in self.hmemo:
                self.stats["handler_memo_hits"] += 1
                out.extend(self.hmemo[mk])
                continue
            if F is not None:
                pk, _, _ = self._split(self.T.tree(tid), F)
                pkey = (qual, label, self.T.intern(("proj", pk)))
                if pkey in self.pmemo:
                    self.stats["frame_memo_hits"] += 1
                    produced = self.T.merge(self.T.intern(self._apply(self.T.tree(tid), self.T.tree(o), F)) for o in self.pmemo[pkey])
                    self.hmemo[mk] = produced
                    out.extend(produced)
                    continue
            produced: list[int] = []
            st = State()
            root = rebuild(self.T.tree(tid), st)
            ctx = Opaque(f"ctx:{rule}", label)
            self.cur_label, self.cur_rule = label, rule
            self.stats["handler_calls"] += 1
            fi = self.model.funcs[qual]
            self.I.ctx_stack.append((fi.module, fi.cls))
            try:
                self.I.steps = 0
                res = self.I.call_func(qual, [root, ctx], {}, st)
            finally:
                self.I.ctx_stack.pop()
            for v, s in res:
                for w in s.imprecise:
                    self.imprecise.add(f"{qual.split('.')[-1]}: {w}")
                if isinstance(v, Raised):
                    self.raises.append((qual.split(".")[-1], label, v))
                    continue
                produced.append(self.T.intern(snap(root, s)))
            produced = self.T.merge(produced)
            self.hmemo[mk] = produced
            if F is not None:
                self.pmemo[pkey] = produced
            out.extend(produced)
        return self.T.merge(out)

    # -- rule walk
    def walk(self, rule: str, label: str, ids: list[int]) -> list[int]:
        if not ids or not self.has_handlers(rule):
            return ids
        key = (rule, label, frozenset(ids))
        if key in self.memo:
            self.stats["memo_hits"] += 1
            return self.memo[key]
        self.stats["rules_walked"] += 1
        self.stack.append(rule)
        h = self.handlers.get(rule, {})
        cur = ids
        if "enter" in h:
            cur = self.call_handler(h["enter"], rule, label, cur)
        cur = self.walk_children(rule, label, cur)
        if "exit" in h:
            cur = self.call_handler(h["exit"], rule, label, cur)
        if rule in self.close_on_exit:
            cur = self.T.merge(self.T.relabel(t, rule, self.close_on_exit[rule]) for t in cur)
        self.stack.pop()
        self.memo[key] = cur
        return cur

    def walk_tree(self, rule: str, label: str, trees: list) -> list:
        ids = self.walk(rule, label, [self.T.intern(t) for t in trees])
        return [self.T.tree(i) for i in ids]

    def walk_children(self, rule: str, label: str, ids: list[int]) -> list[int]:
        nfa = self.g.rule_elements(rule)
        reach: dict[tuple[int, frozenset], dict[int, int]] = {}
        start = (nfa.start, frozenset())
        reach[start] = {self.T.skel(t): t for t in ids}
        work = [start]
        results: dict[int, int] = {}
        guard = 0
        while work:
            guard += 1
            if guard > 50000:
                raise AnalysisError(f"listener typestate did not converge in rule {rule}")
            node = work.pop()
            s, seen = node
            cur = list(reach[node].values())
            if s == nfa.stop:
                for t in cur:
                    k = self.T.skel(t)
                    results[k] = self.T.join(results[k], t) if k in results else t
                continue
            for _, lbl, tgt in nfa.out(s):
                if lbl[0] == "rule" and (rule, lbl[1]) in self.dead_edges:
                    continue
                if lbl[0] == "rule":
                    child = lbl[1]
                    clabel = self.label_for(rule, child, label, dict(seen=seen))
                    out = self.walk(child, clabel, cur)
                    nseen = seen | {child} if (rule, child) in self.ordinal_pairs else seen
                else:
                    out = cur
                    nseen = seen
                nxt = (tgt, nseen)
                bucket = reach.setdefault(nxt, {})
                changed = False
                for t in out:
                    k = self.T.skel(t)
                    if k not in bucket:
                        bucket[k] = t
                        changed = True
                    else:
                        j = self.T.join(bucket[k], t)
                        if j != bucket[k]:
                            bucket[k] = j
                            changed = True
                if changed and nxt not in work:
                    work.append(nxt)
                if len(bucket) > self.max_trees:
                    raise AnalysisError(f"listener typestate exceeded {self.max_trees} abstract states at one position of rule {rule}")
        self.stats["max_states_at_one_position"] = max(self.stats["max_states_at_one_position"], max(len(b) for b in reach.values()))
        return list(results.values())
