"""CLI: /venv/bin/python -m zverif.run <PID> [--tier quick|thorough] [--repo DIR] [--replay FILE]"""

from __future__ import annotations

import argparse
import importlib
import json
import os
import sys
from pathlib import Path

from .core import DEFAULT_REPO, Repo, run_check


def main(argv=None) -> int:
    ap = argparse.ArgumentParser()
    ap.add_argument("pid")
    ap.add_argument("--tier", default=os.environ.get("VERIF_TIER", "quick"), choices=["quick", "thorough"])
    ap.add_argument("--repo", default=str(DEFAULT_REPO))
    ap.add_argument("--replay", default=None, help="re-run the check and report whether the recorded finding persists")
    args = ap.parse_args(argv)
    pid = args.pid.upper()
    try:
        mod = importlib.import_module(f"zverif.props.{pid.lower()}")
    except ModuleNotFoundError:
        print(f"ANALYSIS-ERROR property={pid} no checker module")
        return 2
    rc = run_check(pid, args.tier, lambda run: mod.check(run), Repo(Path(args.repo)))
    if args.replay:
        want = json.loads(Path(args.replay).read_text())
        ev = json.loads((Path(__file__).resolve().parent.parent / "evidence" / f"{pid}.json").read_text())
        keys = {o["subject"] for o in ev["coverage"]["obligation_list"] if o["status"] == "refuted"}
        print(f"replay: recorded finding key={want.get('key')!r}; check exit code now {rc}")
    return rc


if __name__ == "__main__":
    sys.exit(main())
