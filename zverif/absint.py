"""Engine A: a small forking abstract interpreter for the Python subset zorg uses.

Values are either concrete Python immutables that occur (or are derived from
literals that occur) in the analysed source, or abstract values from
``absval``: ``CharSet`` (one char out of a finite set), ``SeqStr`` (string of
known length over chars / CharSets), ``Text`` (unknown text with provenance
labels), ``IntSet``, ``EnumV``, heap ``Ref``s (lists, dicts, dataclass-like
objects), ``Opaque`` sinks and ``Unknown``.

Conditions on abstract values *fork* the state; comparisons of a ``CharSet``
or ``IntSet`` variable against constants *refine* the variable on each
branch (set splitting), so loops over finite domains are explored
exhaustively.  Facts about ``Text`` values decided once stay decided on that
path (``State.facts``).  Anything outside the supported subset evaluates to
``Unknown`` and is recorded in ``State.imprecise`` so a rule can answer
UNDECIDED instead of guessing.

No zorg code is executed by CPython: function bodies are interpreted from
their AST by this module.
"""

from __future__ import annotations

import ast
from dataclasses import dataclass, field
from typing import Any, Callable, Iterable, Optional

from .absval import (
    BoundV, CharSet, ClassV, EnumV, FuncV, HObj, IntSet, LambdaV, OneOf, Opaque, Ref, SeqStr, Term, Text, Unknown, is_concrete, new_text,
)
from .core import AnalysisError
from .pymodel import ClassInfo, FuncInfo, ModuleInfo, PyModel, walk_no_nested


class Raised:
    """Result marker: evaluation raised an exception of (roughly) this type."""

    def __init__(self, exc: str, node: Optional[ast.AST] = None, msg: str = ""):
        self.exc = exc
        self.node = node
        self.msg = msg

    def __repr__(self) -> str:
        return f"Raised({self.exc})"


@dataclass(frozen=True)
class ModuleV:
    dotted: str


def _holds_ref(v: Any) -> bool:
    if isinstance(v, Ref):
        return True
    if isinstance(v, dict):
        return any(_holds_ref(x) for x in v.values())
    if isinstance(v, (tuple, list, frozenset)):
        return any(_holds_ref(x) for x in v)
    return False


@dataclass(frozen=True)
class PartialV:
    func: Any
    args: tuple
    kwargs: tuple


class State:
    def __init__(self) -> None:
        self.frames: list[dict[str, Any]] = [{}]
        self.heap: dict[int, HObj] = {}
        self.facts: dict[tuple, bool] = {}
        self.imprecise: list[str] = []
        self.trace: list[Any] = []
        self.meta: dict[str, Any] = {}
        self._next = 1

    def fork(self) -> "State":
        s = State.__new__(State)
        s.frames = [dict(f) for f in self.frames]
        s.heap = {a: h.clone() for a, h in self.heap.items()}
        s.facts = dict(self.facts)
        s.imprecise = list(self.imprecise)
        s.trace = list(self.trace)
        s.meta = dict(self.meta)
        s._next = self._next
        return s

    def alloc(self, h: HObj) -> Ref:
        a = self._next
        self._next += 1
        self.heap[a] = h
        return Ref(a)

    def obj(self, r: Ref) -> HObj:
        return self.heap[r.addr]

    @property
    def locals(self) -> dict[str, Any]:
        return self.frames[-1]

    def note(self, why: str) -> None:
        if why not in self.imprecise and len(self.imprecise) < 50:
            self.imprecise.append(why)


Results = list  # list[tuple[Any, State]]

EXT_BUILTINS = {
    "functools.partial": "partial", "typing.cast": "cast", "typist.assert_never": "assert_never",
    "dataclasses.replace": "replace", "dataclasses.field": "field",
}


class Interp:
    def __init__(
        self,
        model: PyModel,
        *,
        atomic: Iterable[str] = (),
        opaque_classes: Iterable[str] = (),
        probes: Optional[dict[str, Callable]] = None,
        max_depth: int = 12,
        max_states: int = 4000,
        loop_limit: int = 400,
        max_steps: int = 50_000,
    ):
        self.model = model
        self.atomic = set(atomic)
        self.opaque_classes = set(opaque_classes)
        self.probes = probes or {}
        self.max_depth = max_depth
        self.max_states = max_states
        self.loop_limit = loop_limit
        self.max_steps = max_steps  # statements executed per top-level run (termination guard: exceeding it is an analysis error, never a verdict)
        self.steps = 0
        self._const_cache: dict[str, Any] = {}
        self._const_heap: set[str] = set()
        self.stmt_hook: Optional[Callable] = None
        self.ctx_stack: list[tuple[ModuleInfo, Optional[ClassInfo]]] = []
        self.depth = 0
        from . import absbuiltins

        self.B = absbuiltins

    # ---------------------------------------------------------------- helpers
    @property
    def mod(self) -> ModuleInfo:
        return self.ctx_stack[-1][0]

    def _guard(self, results: Results) -> Results:
        if len(results) > self.max_states:
            raise AnalysisError(f"abstract interpretation exceeded {self.max_states} states")
        return results

    def bind(self, results: Results, fn: Callable[[Any, State], Results]) -> Results:
        out: Results = []
        for v, st in results:
            if isinstance(v, Raised):
                out.append((v, st))
            else:
                out.extend(fn(v, st))
        return self._guard(out)

    def eval_list(self, exprs: list[ast.expr], st: State) -> Results:
        """Evaluate expressions left to right -> results whose value is a tuple."""
        res: Results = [((), st)]
        for e in exprs:
            if isinstance(e, ast.Starred):
                def step_star(acc, s, e=e):
                    def add(v, s2):
                        items = self.B.iter_values(self, v, s2)
                        if items is None:
                            s2.note(f"cannot unpack *{ast.unparse(e.value)}")
                            return [(acc + (Unknown("star"),), s2)]
                        return [(acc + tuple(items), s2)]
                    return self.bind(self.eval(e.value, s), add)
                res = self.bind(res, step_star)
            else:
                def step(acc, s, e=e):
                    return self.bind(self.eval(e, s), lambda v, s2: [(acc + (v,), s2)])
                res = self.bind(res, step)
        return res

    # ---------------------------------------------------------------- names
    def lookup(self, name: str, st: State) -> Any:
        if name in st.locals:
            return st.locals[name]
        closure = st.meta.get("closure")
        if closure and name in closure:
            return closure[name]
        return self.module_name(self.mod, name, st)

    def module_name(self, mi: ModuleInfo, name: str, st: Optional[State] = None) -> Any:
        if name in mi.funcs:
            return FuncV(mi.funcs[name].qualname)
        if name in mi.classes:
            return ClassV(mi.classes[name].qualname)
        if name in mi.assigns:
            return self.module_const(mi, name, st)
        if name in mi.imports:
            tgt = mi.imports[name]
            r = self.model.resolve_dotted(tgt)
            if r in self.model.funcs:
                return FuncV(r)
            if r in self.model.classes:
                return ClassV(r)
            if r in self.model.modules:
                return ModuleV(r)
            if r and "." in r:
                m, n = r.rsplit(".", 1)
                if m in self.model.modules and n in self.model.modules[m].assigns:
                    return self.module_const(self.model.modules[m], n, st)
            if tgt in EXT_BUILTINS:
                return BoundV(None, EXT_BUILTINS[tgt])
            return Opaque(f"ext:{tgt}")
        if name in self.B.BUILTIN_NAMES:
            return BoundV(None, name)
        if name in ("True", "False", "None"):
            return {"True": True, "False": False, "None": None}[name]
        return Unknown(f"name {name}")

    def module_const(self, mi: ModuleInfo, name: str, into: Optional[State] = None) -> Any:
        """Value of a module-level assignment.  Containers of scalars are frozen and cached.  A constant that holds heap OBJECTS
        (a table of NamedTuple / dataclass instances) cannot be shared between abstract heaps: it is re-materialised in the asking state."""
        key = f"{mi.dotted}.{name}"
        if key in self._const_cache and not (key in self._const_heap and into is not None):
            return self._const_cache[key]
        self._const_cache.setdefault(key, Unknown(f"recursive constant {key}"))
        expr = mi.assigns[name]
        st = into if key in self._const_heap and into is not None else State()
        self.ctx_stack.append((mi, None))
        saved = st.frames[:] if st is into else None
        if st is into:
            st.frames.append({})
        try:
            res = self.eval(expr, st)
        finally:
            self.ctx_stack.pop()
            if saved is not None:
                st.frames[:] = saved
        val: Any = Unknown(f"constant {key}")
        if len(res) == 1 and not isinstance(res[0][0], Raised) and (st is not into or res[0][1] is st):
            v = res[0][0]
            if isinstance(v, Ref):
                # freeze module-level containers of constants
                v = self.B.freeze(self, v, res[0][1])
            val = v
        if st is not into and _holds_ref(val):
            self._const_heap.add(key)
            if into is not None:
                return self.module_const(mi, name, into)
            val = Unknown(f"constant {key} holds objects and no state to materialise it in")
        if st is not into:
            self._const_cache[key] = val
        return val

    # ------------------------------------------------------------ expressions
    def eval(self, e: ast.expr, st: State) -> Results:
        m = getattr(self, "e_" + type(e).__name__, None)
        if m is None:
            st.note(f"unsupported expression {type(e).__name__}: {ast.unparse(e)[:60]}")
            return [(Unknown(type(e).__name__), st)]
        return self._guard(m(e, st))

    def e_Constant(self, e, st):
        return [(e.value, st)]

    def e_Name(self, e, st):
        return [(self.lookup(e.id, st), st)]

    def e_NamedExpr(self, e, st):
        def f(v, s):
            s.locals[e.target.id] = v
            return [(v, s)]
        return self.bind(self.eval(e.value, st), f)

    def e_JoinedStr(self, e, st):
        res: Results = [((), st)]
        for part in e.values:
            if isinstance(part, ast.Constant):
                res = [(acc + (part.value,), s) for acc, s in res]
            else:
                def step(acc, s, part=part):
                    def f(v, s2):
                        if part.format_spec is not None:
                            spec = part.format_spec.values[0].value if part.format_spec.values and isinstance(part.format_spec.values[0], ast.Constant) else None
                            v = self.B.format_value(self, v, spec, s2)
                        return [(acc + (v,), s2)]
                    return self.bind(self.eval(part.value, s), f)
                res = self.bind(res, step)
        return [(v if isinstance(v, Raised) else self.B.concat_str(self, list(v), s), s) for v, s in res]

    def e_Tuple(self, e, st):
        return self.eval_list(e.elts, st)

    def e_List(self, e, st):
        return self.bind(self.eval_list(e.elts, st), lambda vs, s: [(s.alloc(HObj("list", items=list(vs))), s)])

    def e_Set(self, e, st):
        return self.bind(self.eval_list(e.elts, st), lambda vs, s: [(s.alloc(HObj("set", items=self.B.dedupe(list(vs)))), s)])

    def e_Dict(self, e, st):
        keys = [k for k in e.keys]
        if any(k is None for k in keys):
            # {**a, k: v, **b}: unpacked maps and explicit entries, left to right
            def merge_keys(ks, s0):
                def merge(vs, s):
                    out: dict = {}
                    for k_expr, k, v in zip(keys, ks, vs):
                        if k_expr is None:
                            if isinstance(v, Ref) and s.obj(v).kind == "dict":
                                self.B.dict_merge(out, s.obj(v).fields)
                            else:
                                s.note("dict unpack of non-dict")
                        elif self.B.hashable(k):
                            out[k] = v
                        else:
                            s.note("dict literal with abstract key")
                    return [(s.alloc(HObj("dict", fields=out)), s)]
                return self.bind(self.eval_list(e.values, s0), merge)
            return self.bind(self.eval_list([k if k is not None else ast.Constant(value=None) for k in keys], st), merge_keys)
        def f(ks, s):
            def g(vs, s2):
                d = {}
                for k, v in zip(ks, vs):
                    if not self.B.hashable(k):
                        s2.note("dict literal with abstract key")
                        return [(Unknown("dict"), s2)]
                    d[k] = v
                return [(s2.alloc(HObj("dict", fields=d)), s2)]
            return self.bind(self.eval_list(e.values, s), g)
        return self.bind(self.eval_list(keys, st), f)

    def e_Attribute(self, e, st):
        return self.bind(self.eval(e.value, st), lambda v, s: self.B.getattr_(self, v, e.attr, s, e))

    def e_Subscript(self, e, st):
        def f(base, s):
            if isinstance(e.slice, ast.Slice):
                parts = [e.slice.lower, e.slice.upper, e.slice.step]
                def g(bounds, s2):
                    return self.B.slice_(self, base, bounds, s2, e)
                return self.bind(self.eval_list([p if p is not None else ast.Constant(value=None) for p in parts], s), g)
            return self.bind(self.eval(e.slice, s), lambda idx, s2: self.B.index_(self, base, idx, s2, e))
        return self.bind(self.eval(e.value, st), f)

    def e_UnaryOp(self, e, st):
        if isinstance(e.op, ast.Not):
            return [((not b), s) if not isinstance(b, Raised) else (b, s) for b, s in self.cond(e.operand, st)]
        def f(v, s):
            if isinstance(v, (int, float)) and not isinstance(v, bool):
                return [(-v if isinstance(e.op, ast.USub) else +v, s)]
            if isinstance(v, IntSet) and isinstance(e.op, ast.USub):
                return [(IntSet(frozenset(-x for x in v.values)), s)]
            return [(Unknown("unary"), s)]
        return self.bind(self.eval(e.operand, st), f)

    def e_BinOp(self, e, st):
        def f(l, s):
            return self.bind(self.eval(e.right, s), lambda r, s2: self.B.binop(self, e.op, l, r, s2, e))
        return self.bind(self.eval(e.left, st), f)

    def e_BoolOp(self, e, st):
        # value semantics (x or y returns an operand); go through cond for pure booleans
        is_and = isinstance(e.op, ast.And)
        res: Results = []
        pending: Results = [(None, st)]
        for i, v in enumerate(e.values):
            nxt: Results = []
            for _, s in pending:
                for val, s2 in self.eval(v, s):
                    if isinstance(val, Raised):
                        res.append((val, s2))
                        continue
                    if i == len(e.values) - 1:
                        res.append((val, s2))
                        continue
                    # a value that is one of several alternatives short-circuits per alternative, and the operand returned is that alternative
                    alts = val.alts if isinstance(val, OneOf) else (val,)
                    for j, a in enumerate(alts):
                        s_a = s2 if j == len(alts) - 1 else s2.fork()
                        if isinstance(val, OneOf):
                            self.refine(s_a, v, a)
                        for t, s3 in self.truth_fork(a, s_a, None if isinstance(val, OneOf) else v):
                            if t == is_and:
                                nxt.append((a, s3))
                            else:
                                res.append((a, s3))
            pending = nxt
        return res

    def e_Compare(self, e, st):
        hook = self.probes.get("compare")
        if hook is not None and len(e.ops) == 1:
            def f(l, s):
                def g(r, s2):
                    if isinstance(l, (Term, BoundV)) or isinstance(r, (Term, BoundV)):
                        v = hook(self, e.ops[0], l, r, s2)
                        if v is not None:
                            return [(v, s2)]
                    return [(b, s3) for b, s3 in self.B.compare(self, e.ops[0], l, r, s2, e.left, e.comparators[0])]
                return self.bind(self.eval(e.comparators[0], s), g)
            return self.bind(self.eval(e.left, st), f)
        return [(b, s) for b, s in self.cond(e, st)]

    def e_Yield(self, e, st):
        def f(v, s):
            acc = s.locals.get("__yield__")
            if isinstance(acc, Ref):
                s.obj(acc).items.append(v)
            else:
                s.note("yield outside a materialised generator")
            return [(None, s)]
        if e.value is None:
            return f(None, st)
        return self.bind(self.eval(e.value, st), f)

    def e_YieldFrom(self, e, st):
        def f(v, s):
            acc = s.locals.get("__yield__")
            items = self.B.iter_values(self, v, s)
            if isinstance(acc, Ref) and items is not None:
                s.obj(acc).items.extend(items)
            else:
                s.note("yield from an abstract iterable")
                if isinstance(acc, Ref):
                    s.obj(acc).items.append(Unknown("yield from"))
            return [(None, s)]
        return self.bind(self.eval(e.value, st), f)

    def e_IfExp(self, e, st):
        out: Results = []
        for b, s in self.cond(e.test, st):
            if isinstance(b, Raised):
                out.append((b, s))
            else:
                out.extend(self.eval(e.body if b else e.orelse, s))
        return out

    def e_Lambda(self, e, st):
        return [(LambdaV(e, dict(st.locals), self.ctx_stack[-1]), st)]

    def e_Call(self, e, st):
        if (
            isinstance(e.func, ast.Name) and e.func.id in ("all", "any") and len(e.args) == 1 and isinstance(e.args[0], ast.GeneratorExp)
            and len(e.args[0].generators) == 1 and not e.args[0].generators[0].ifs and isinstance(e.args[0].generators[0].target, ast.Name)
        ):
            gen = e.args[0].generators[0]
            def over(itv, s):
                if isinstance(itv, Text):
                    import re as _re
                    pred = _re.sub(rf"\b{gen.target.id}\b", "_", ast.unparse(e.args[0].elt))
                    key = (itv.tid, f"{e.func.id}({pred})")
                    if key in s.facts:
                        return [(s.facts[key], s)]
                    s2 = s.fork()
                    s.facts[key] = True
                    s2.facts[key] = False
                    return [(True, s), (False, s2)]
                return self._call_generic(e, s)
            return self.bind(self.eval(gen.iter, st), over)
        return self._call_generic(e, st)

    def _call_generic(self, e, st):
        def f(fv, s):
            pos = [a for a in e.args]
            def g(args, s2):
                kw_names = [k.arg for k in e.keywords]
                def h(kwvals, s3):
                    kwargs: dict[str, Any] = {}
                    for n, v in zip(kw_names, kwvals):
                        if n is None:
                            if isinstance(v, Ref) and s3.obj(v).kind == "dict":
                                kwargs.update({k: x for k, x in s3.obj(v).fields.items() if isinstance(k, str)})
                            else:
                                s3.note("**kwargs of non-dict")
                        else:
                            kwargs[n] = v
                    return self.call(fv, list(args), kwargs, s3, e)
                return self.bind(self.eval_list([k.value for k in e.keywords], s2), h)
            return self.bind(self.eval_list(pos, s), g)
        if isinstance(e.func, ast.Attribute):
            def meth(base, s):
                if isinstance(base, OneOf):
                    out = []
                    for i, a in enumerate(base.alts):
                        s2 = s if i == len(base.alts) - 1 else s.fork()
                        self.refine(s2, e.func.value, a)
                        out.extend(meth(a, s2))
                    return out
                if isinstance(base, Opaque):
                    return f(BoundV(base, e.func.attr), s)
                return self.bind(self.B.getattr_(self, base, e.func.attr, s, e.func), f)
            return self.bind(self.eval(e.func.value, st), meth)
        return self.bind(self.eval(e.func, st), f)

    def _comp(self, e, st, kind: str):
        """List/Set/Generator comprehension -> heap list (generators are materialised)."""
        def rec(gens, s, acc_ref):
            if not gens:
                if kind == "dict":
                    def kv(k, s2):
                        def vv(v, s3):
                            s3.obj(acc_ref).fields[k] = v
                            return [(None, s3)]
                        return self.bind(self.eval(e.value, s2), vv)
                    return self.bind(self.eval(e.key, s), kv)
                def add(v, s2):
                    s2.obj(acc_ref).items.append(v)
                    return [(None, s2)]
                return self.bind(self.eval(e.elt, s), add)
            g0 = gens[0]
            def over(itv, s2):
                lazy = kind == "gen" and len(e.generators) == 1 and self.B.is_truncated(itv, s2)
                items = self.B.iter_values(self, itv, s2, allow_truncated=lazy)
                if lazy:
                    s2.obj(acc_ref).cls = self.B.TRUNCATED
                if items is None:
                    s2.note(f"comprehension over abstract iterable {ast.unparse(g0.iter)[:40]}")
                    s2.obj(acc_ref).items.append(Unknown("comp"))
                    return [(None, s2)]
                states: Results = [(None, s2)]
                for it in items:
                    nxt: Results = []
                    for _, s3 in states:
                        for _, s4 in self.assign(g0.target, it, s3):
                            conds: Results = [(True, s4)]
                            for c in g0.ifs:
                                conds = [(b2, s6) for b, s5 in conds if b is True for b2, s6 in self.cond(c, s5)] + [(b, s5) for b, s5 in conds if b is not True]
                            for b, s5 in conds:
                                if b is True:
                                    nxt.extend(rec(gens[1:], s5, acc_ref))
                                else:
                                    nxt.append((None, s5))
                    states = self._guard(nxt)
                return states
            return self.bind(self.eval(g0.iter, s), over)
        st.frames.append(dict(st.locals))  # comprehension scope (reads enclosing locals)
        ref = st.alloc(HObj("dict" if kind == "dict" else "list"))
        out = []
        for v, s in rec(e.generators, st, ref):
            if isinstance(v, Raised):
                s.frames.pop()
                out.append((v, s))
                continue
            s.frames.pop()
            if kind == "set":
                s.obj(ref).items = self.B.dedupe(s.obj(ref).items)
                s.obj(ref).kind = "set"
            out.append((ref, s))
        return out

    def e_ListComp(self, e, st):
        return self._comp(e, st, "list")

    def e_GeneratorExp(self, e, st):
        return self._comp(e, st, "gen")

    def e_SetComp(self, e, st):
        return self._comp(e, st, "set")

    def e_DictComp(self, e, st):
        return self._comp(e, st, "dict")

    # -------------------------------------------------------------- conditions
    def truth_fork(self, v: Any, st: State, expr: Optional[ast.expr] = None) -> list[tuple[bool, State]]:
        if isinstance(v, OneOf):
            out = []
            for i, a in enumerate(v.alts):
                s2 = st if i == len(v.alts) - 1 else st.fork()
                self.refine(s2, expr, a)
                out.extend(self.truth_fork(a, s2, None))
            return out
        if isinstance(v, Ref) and st.obj(v).kind == "obj" and st.obj(v).cls in self.model.classes:
            # an instance of one of the program's own classes is truthy unless its class says otherwise (__bool__, else __len__)
            ci = self.model.classes[st.obj(v).cls]
            m = self.model.find_method(ci, "__bool__") or self.model.find_method(ci, "__len__")
            if m is not None:
                out = []
                for r, s2 in self.call_func(m.qualname, [v], {}, st, expr):
                    if isinstance(r, bool) or (isinstance(r, int) and not isinstance(r, bool)):
                        out.append((bool(r), s2))
                    elif isinstance(r, Raised):
                        s2.note(f"{m.name} raised while deciding truthiness")
                        out.append((True, s2))
                    else:
                        s3 = s2.fork()
                        out.extend([(True, s2), (False, s3)])
                return out
        t = self.B.truth(self, v, st)
        if t is not None:
            return [(t, st)]
        s2 = st.fork()
        return [(True, st), (False, s2)]

    def cond(self, e: ast.expr, st: State) -> list[tuple[Any, State]]:
        """Evaluate as a boolean, forking and refining. Values are True/False/Raised."""
        if isinstance(e, ast.BoolOp):
            is_and = isinstance(e.op, ast.And)
            pending = [(is_and, st)]
            done: list = []
            for v in e.values:
                nxt = []
                for _, s in pending:
                    for b, s2 in self.cond(v, s):
                        if isinstance(b, Raised) or b != is_and:
                            done.append((b, s2))
                        else:
                            nxt.append((b, s2))
                pending = nxt
            return self._guard(done + pending)
        if isinstance(e, ast.UnaryOp) and isinstance(e.op, ast.Not):
            return [((not b) if not isinstance(b, Raised) else b, s) for b, s in self.cond(e.operand, st)]
        if isinstance(e, ast.Compare):
            # chain a < b < c  ->  conjunction
            res: list = [(True, st, None)]
            left_expr = e.left
            out: list = []
            first = self.eval(e.left, st)
            cur = [(v, s) for v, s in first]
            pending = []
            for v, s in cur:
                if isinstance(v, Raised):
                    out.append((v, s))
                else:
                    pending.append((v, s, left_expr))
            for op, right in zip(e.ops, e.comparators):
                nxt = []
                for lv, s, lexpr in pending:
                    for rv, s2 in self.eval(right, s):
                        if isinstance(rv, Raised):
                            out.append((rv, s2))
                            continue
                        for b0, s30 in self.B.compare(self, op, lv, rv, s2, lexpr, right):
                            # a comparison answered by a hook with a non-boolean (e.g. an SQL expression term) counts by its truthiness
                            forks = [(b0, s30)] if isinstance(b0, (bool, Raised)) else self.truth_fork(b0, s30, None)
                            for b, s3 in forks:
                                if b is True:
                                    nxt.append((rv, s3, right))
                                else:
                                    out.append((b, s3))
                pending = nxt
            out.extend((True, s) for _, s, _ in pending)
            return self._guard(out)
        if isinstance(e, ast.NamedExpr):
            out = []
            for v, s in self.eval(e.value, st):
                if isinstance(v, Raised):
                    out.append((v, s))
                    continue
                s.locals[e.target.id] = v
                out.extend(self.truth_fork(v, s, e))
            return out
        out = []
        for v, s in self.eval(e, st):
            if isinstance(v, Raised):
                out.append((v, s))
            else:
                out.extend(self.truth_fork(v, s, e))
        return self._guard(out)

    def refine(self, st: State, target: Optional[ast.expr], val: Any) -> None:
        """Narrow the variable an operand was read from (set splitting)."""
        if isinstance(target, ast.Name) and target.id in st.locals:
            st.locals[target.id] = val
        elif isinstance(target, ast.NamedExpr):
            st.locals[target.target.id] = val
        elif isinstance(target, ast.Attribute):
            # x.y.z : re-evaluate the (side-effect free) base chain and narrow the field
            base = target.value
            ok = True
            b = base
            while isinstance(b, ast.Attribute):
                b = b.value
            if not isinstance(b, ast.Name):
                return
            res = self.eval(base, st)
            if len(res) == 1 and isinstance(res[0][0], Ref) and res[0][1] is st:
                h = st.obj(res[0][0])
                if h.kind == "obj" and target.attr in h.fields:
                    h.fields[target.attr] = val

    # -------------------------------------------------------------- statements
    def assign(self, target: ast.expr, val: Any, st: State) -> Results:
        if isinstance(target, ast.Name):
            st.locals[target.id] = val
            return [(None, st)]
        if isinstance(target, (ast.Tuple, ast.List)):
            if isinstance(val, Ref) and st.obj(val).cls == "textwords":
                word = st.obj(val).items[0]
                res0: Results = [(None, st)]
                for t in target.elts:
                    res0 = self.bind(res0, lambda _, s, t=t: self.assign(t, new_text(word.labels, word.kind), s))
                return res0
            items = self.B.iter_values(self, val, st)
            if items is None:
                st.note(f"cannot unpack into {ast.unparse(target)}")
                for t in target.elts:
                    self.assign(t, Unknown("unpack"), st)
                return [(None, st)]
            stars = [i for i, t in enumerate(target.elts) if isinstance(t, ast.Starred)]
            if len(stars) == 1:
                i = stars[0]
                n_after = len(target.elts) - i - 1
                if len(items) < len(target.elts) - 1:
                    return [(Raised("ValueError", target, "not enough values to unpack"), st)]
                mid = items[i:len(items) - n_after]
                pairs = list(zip(target.elts[:i], items[:i])) + [(target.elts[i].value, st.alloc(HObj("list", items=list(mid))))] + list(zip(target.elts[i + 1:], items[len(items) - n_after:]))
                res: Results = [(None, st)]
                for t, v in pairs:
                    res = self.bind(res, lambda _, s, t=t, v=v: self.assign(t, v, s))
                return res
            if len(items) != len(target.elts):
                return [(Raised("ValueError", target, "unpack length mismatch"), st)]
            res = [(None, st)]
            for t, v in zip(target.elts, items):
                res = self.bind(res, lambda _, s, t=t, v=v: self.assign(t, v, s))
            return res
        if isinstance(target, ast.Attribute):
            def f(obj, s):
                return self.B.setattr_(self, obj, target.attr, val, s)
            return self.bind(self.eval(target.value, st), f)
        if isinstance(target, ast.Subscript) and isinstance(target.slice, ast.Slice):
            def f3(obj, s):
                parts = [target.slice.lower, target.slice.upper]
                def g(bounds, s2):
                    lo, hi = bounds
                    items = self.B.iter_values(self, val, s2)
                    if isinstance(obj, Ref) and s2.obj(obj).kind == "list" and not s2.obj(obj).setlike and (lo is None or isinstance(lo, int)) and (hi is None or isinstance(hi, int)) \
                            and items is not None and target.slice.step is None:
                        s2.obj(obj).items[lo:hi] = list(items)
                    else:
                        s2.note("slice store on abstract list / bounds")
                    return [(None, s2)]
                return self.bind(self.eval_list([p if p is not None else ast.Constant(value=None) for p in parts], s), g)
            return self.bind(self.eval(target.value, st), f3)
        if isinstance(target, ast.Subscript):
            def f2(obj, s):
                return self.bind(self.eval(target.slice, s), lambda idx, s2: self.B.setitem_(self, obj, idx, val, s2))
            return self.bind(self.eval(target.value, st), f2)
        st.note(f"unsupported assignment target {ast.unparse(target)}")
        return [(None, st)]

    def exec_block(self, stmts: list[ast.stmt], st: State) -> list[tuple[State, str, Any]]:
        states: list[tuple[State, str, Any]] = [(st, "fall", None)]
        for stmt in stmts:
            nxt: list[tuple[State, str, Any]] = []
            for s, out, val in states:
                if out != "fall":
                    nxt.append((s, out, val))
                else:
                    nxt.extend(self.exec_stmt(stmt, s))
            states = nxt
            if len(states) > self.max_states:
                raise AnalysisError(f"abstract interpretation exceeded {self.max_states} states")
        return states

    def _from_results(self, res: Results) -> list[tuple[State, str, Any]]:
        return [(s, "raise", v) if isinstance(v, Raised) else (s, "fall", None) for v, s in res]

    def exec_stmt(self, stmt: ast.stmt, st: State) -> list[tuple[State, str, Any]]:
        if self.stmt_hook is not None:
            r = self.stmt_hook(self, stmt, st)
            if r is not None:
                return r
        self.steps += 1
        if self.steps > self.max_steps:
            raise AnalysisError(f"abstract interpretation exceeded {self.max_steps} statements")
        m = getattr(self, "s_" + type(stmt).__name__, None)
        if m is None:
            st.note(f"unsupported statement {type(stmt).__name__}")
            return [(st, "fall", None)]
        return m(stmt, st)

    def s_Expr(self, stmt, st):
        return self._from_results(self.eval(stmt.value, st))

    def s_Pass(self, stmt, st):
        return [(st, "fall", None)]

    def s_Delete(self, stmt, st):
        res: Results = [(None, st)]
        for t in stmt.targets:
            if isinstance(t, ast.Name):
                res = self.bind(res, lambda _, s, t=t: (s.locals.pop(t.id, None), [(None, s)])[1])
            elif isinstance(t, ast.Subscript):
                # del xs[i] / del xs[a:b] / del d[k]
                def one(_, s, t=t):
                    def with_base(base, s1):
                        if isinstance(t.slice, ast.Slice):
                            parts = [p if p is not None else ast.Constant(value=None) for p in (t.slice.lower, t.slice.upper, t.slice.step)]
                            return self.bind(self.eval_list(parts, s1), lambda b, s2: self._del_item(base, slice(*b) if all(x is None or (isinstance(x, int) and not isinstance(x, bool)) for x in b) else Unknown("slice"), s2, t))
                        return self.bind(self.eval(t.slice, s1), lambda idx, s2: self._del_item(base, idx, s2, t))
                    return self.bind(self.eval(t.value, s), with_base)
                res = self.bind(res, one)
            else:
                for _, s in res:
                    s.note(f"unsupported del target {ast.unparse(t)[:40]}")
        return self._from_results(res)

    def _del_item(self, base, idx, st, node) -> Results:
        if isinstance(base, Ref):
            h = st.obj(base)
            if h.kind == "list" and not h.setlike and (isinstance(idx, slice) or (isinstance(idx, int) and not isinstance(idx, bool))):
                try:
                    del h.items[idx]
                except IndexError:
                    return [(Raised("IndexError", node), st)]
                return [(None, st)]
            if h.kind == "dict" and self.B.hashable(idx) and is_concrete(idx):
                if idx in h.fields:
                    del h.fields[idx]
                    return [(None, st)]
                return [(Raised("KeyError", node), st)]
        st.note(f"del on {type(base).__name__}[{type(idx).__name__}] not modelled")
        return [(None, st)]

    def s_Assign(self, stmt, st):
        def f(v, s):
            res: Results = [(None, s)]
            for t in stmt.targets:
                res = self.bind(res, lambda _, s2, t=t: self.assign(t, v, s2))
            return res
        return self._from_results(self.bind(self.eval(stmt.value, st), f))

    def s_AnnAssign(self, stmt, st):
        if stmt.value is None:
            return [(st, "fall", None)]
        return self._from_results(self.bind(self.eval(stmt.value, st), lambda v, s: self.assign(stmt.target, v, s)))

    def s_AugAssign(self, stmt, st):
        load = ast.copy_location(ast.fix_missing_locations(_as_load(stmt.target)), stmt)
        def f(cur, s):
            def g(r, s2):
                # in-place list extension keeps identity
                if isinstance(stmt.op, ast.Add) and isinstance(cur, Ref) and s2.obj(cur).kind == "list":
                    items = self.B.iter_values(self, r, s2)
                    if items is not None:
                        self.B.list_extend(s2.obj(cur), items)
                        return [(None, s2)]
                if isinstance(stmt.op, ast.BitOr) and isinstance(cur, Ref) and s2.obj(cur).kind == "dict" and isinstance(r, Ref) and s2.obj(r).kind == "dict":
                    self.B.dict_merge(s2.obj(cur).fields, s2.obj(r).fields)
                    return [(None, s2)]
                return self.bind(self.B.binop(self, stmt.op, cur, r, s2, stmt), lambda v, s3: self.assign(stmt.target, v, s3))
            return self.bind(self.eval(stmt.value, s), g)
        return self._from_results(self.bind(self.eval(load, st), f))

    def s_Return(self, stmt, st):
        if stmt.value is None:
            return [(st, "return", None)]
        return [(s, "raise", v) if isinstance(v, Raised) else (s, "return", v) for v, s in self.eval(stmt.value, st)]

    def s_Raise(self, stmt, st):
        name = "Exception"
        if stmt.exc is not None:
            f = stmt.exc.func if isinstance(stmt.exc, ast.Call) else stmt.exc
            name = ast.unparse(f).split(".")[-1]
        return [(st, "raise", Raised(name, stmt))]

    def s_Assert(self, stmt, st):
        out = []
        for b, s in self.cond(stmt.test, st):
            if isinstance(b, Raised):
                out.append((s, "raise", b))
            elif b:
                out.append((s, "fall", None))
            else:
                out.append((s, "raise", Raised("AssertionError", stmt)))
        return out

    def s_If(self, stmt, st):
        out = []
        for b, s in self.cond(stmt.test, st):
            if isinstance(b, Raised):
                out.append((s, "raise", b))
            else:
                out.extend(self.exec_block(stmt.body if b else stmt.orelse, s))
        return out

    def s_Match(self, stmt, st):
        """match on value / singleton / wildcard / or-patterns and simple captures; anything else is imprecise."""
        def pat_conds(p, subj_expr):
            if isinstance(p, ast.MatchValue):
                return ast.Compare(left=subj_expr, ops=[ast.Eq()], comparators=[p.value])
            if isinstance(p, ast.MatchSingleton):
                return ast.Compare(left=subj_expr, ops=[ast.Is()], comparators=[ast.Constant(value=p.value)])
            if isinstance(p, ast.MatchOr):
                subs = [pat_conds(x, subj_expr) for x in p.patterns]
                if any(x is None for x in subs):
                    return None
                return ast.BoolOp(op=ast.Or(), values=subs)
            if isinstance(p, ast.MatchAs) and p.pattern is None:
                return ast.Constant(value=True)
            if isinstance(p, ast.MatchClass) and not p.patterns and not p.kwd_patterns:
                # `case Cls():` is an isinstance test
                return ast.Call(func=ast.Name(id="isinstance", ctx=ast.Load()), args=[subj_expr, p.cls], keywords=[])
            return None

        out = []
        pending = [st]
        for case in stmt.cases:
            test = pat_conds(case.pattern, stmt.subject)
            if test is None:
                for s in pending:
                    s.note(f"match pattern {ast.unparse(case.pattern)[:40]} not modelled")
                    out.append((s, "fall", None))
                return out
            if case.guard is not None:
                test = ast.BoolOp(op=ast.And(), values=[test, case.guard])
            test = ast.fix_missing_locations(ast.copy_location(test, stmt))
            nxt = []
            for s in pending:
                for b, s2 in self.cond(test, s):
                    if isinstance(b, Raised):
                        out.append((s2, "raise", b))
                    elif b:
                        if isinstance(case.pattern, ast.MatchAs) and case.pattern.name:
                            for v, s3 in self.eval(stmt.subject, s2):
                                s3.locals[case.pattern.name] = v
                                out.extend(self.exec_block(case.body, s3))
                        else:
                            out.extend(self.exec_block(case.body, s2))
                    else:
                        nxt.append(s2)
            pending = nxt
        out.extend((s, "fall", None) for s in pending)
        return out

    def s_Break(self, stmt, st):
        return [(st, "break", None)]

    def s_Continue(self, stmt, st):
        return [(st, "continue", None)]

    def s_For(self, stmt, st):
        out: list[tuple[State, str, Any]] = []
        for itv, s in self.eval(stmt.iter, st):
            if isinstance(itv, Raised):
                out.append((s, "raise", itv))
                continue
            items = self.B.iter_values(self, itv, s)
            if items is None:
                # abstract iterable: 0 or 1 iteration with an unknown element
                s.note(f"loop over abstract iterable {ast.unparse(stmt.iter)[:50]}")
                s0 = s.fork()
                out.extend(self.exec_block(stmt.orelse, s0))
                elem = self.B.abstract_elem(self, itv, s)
                for _, s1 in self.assign(stmt.target, elem, s):
                    for s2, o, v in self.exec_block(stmt.body, s1):
                        if o in ("fall", "continue"):
                            out.extend(self.exec_block(stmt.orelse, s2))
                        elif o == "break":
                            out.append((s2, "fall", None))
                        else:
                            out.append((s2, o, v))
                continue
            live: list[State] = [s]
            for it in items:
                nxt: list[State] = []
                for s1 in live:
                    for _, s2 in self.assign(stmt.target, it, s1):
                        for s3, o, v in self.exec_block(stmt.body, s2):
                            if o in ("fall", "continue"):
                                nxt.append(s3)
                            elif o == "break":
                                out.append((s3, "fall", None))
                            else:
                                out.append((s3, o, v))
                live = nxt
                if len(live) > self.max_states:
                    raise AnalysisError("state explosion in for loop")
            for s1 in live:
                out.extend(self.exec_block(stmt.orelse, s1))
        return out

    def s_While(self, stmt, st):
        out: list[tuple[State, str, Any]] = []
        live = [st]
        for _ in range(self.loop_limit):
            nxt: list[State] = []
            for s in live:
                for b, s1 in self.cond(stmt.test, s):
                    if isinstance(b, Raised):
                        out.append((s1, "raise", b))
                    elif not b:
                        out.extend(self.exec_block(stmt.orelse, s1))
                    else:
                        for s2, o, v in self.exec_block(stmt.body, s1):
                            if o in ("fall", "continue"):
                                nxt.append(s2)
                            elif o == "break":
                                out.append((s2, "fall", None))
                            else:
                                out.append((s2, o, v))
            live = nxt
            if not live:
                return out
            if len(live) > self.max_states:
                raise AnalysisError("state explosion in while loop")
        raise AnalysisError(f"while loop did not terminate abstractly within {self.loop_limit} iterations: {ast.unparse(stmt.test)[:60]}")

    def s_With(self, stmt, st):
        res: Results = [(None, st)]
        for it in stmt.items:
            def f(_, s, it=it):
                def g(v, s2):
                    if it.optional_vars is not None:
                        return self.assign(it.optional_vars, v, s2)
                    return [(None, s2)]
                return self.bind(self.eval(it.context_expr, s), g)
            res = self.bind(res, f)
        out = []
        for v, s in res:
            if isinstance(v, Raised):
                out.append((s, "raise", v))
            else:
                out.extend(self.exec_block(stmt.body, s))
        return out

    def s_Try(self, stmt, st):
        out = []
        for s, o, v in self.exec_block(stmt.body, st):
            if o == "raise" and isinstance(v, Raised):
                handled = False
                for h in stmt.handlers:
                    names = []
                    if h.type is None:
                        names = ["*"]
                    elif isinstance(h.type, ast.Tuple):
                        names = [ast.unparse(x).split(".")[-1] for x in h.type.elts]
                    else:
                        names = [ast.unparse(h.type).split(".")[-1]]
                    if "*" in names or v.exc in names or "Exception" in names or "BaseException" in names:
                        if h.name:
                            s.locals[h.name] = Opaque("exception")
                        out.extend(self.exec_block(h.body, s))
                        handled = True
                        break
                if not handled:
                    out.append((s, o, v))
            elif o == "fall":
                out.extend(self.exec_block(stmt.orelse, s))
            else:
                out.append((s, o, v))
        if stmt.finalbody:
            fin = []
            for s, o, v in out:
                for s2, o2, v2 in self.exec_block(stmt.finalbody, s):
                    fin.append((s2, o if o2 == "fall" else o2, v if o2 == "fall" else v2))
            out = fin
        return out

    def s_FunctionDef(self, stmt, st):
        st.locals[stmt.name] = LambdaV(stmt, st.locals, self.ctx_stack[-1])
        return [(st, "fall", None)]

    def s_Global(self, stmt, st):
        return [(st, "fall", None)]

    s_Nonlocal = s_Global

    def s_Import(self, stmt, st):
        return [(st, "fall", None)]

    def s_ImportFrom(self, stmt, st):
        # function-local import of zorg names
        for a in stmt.names:
            base = stmt.module or ""
            r = self.model.resolve_dotted(f"{base}.{a.name}")
            if r in self.model.classes:
                st.locals[a.asname or a.name] = ClassV(r)
            elif r in self.model.funcs:
                st.locals[a.asname or a.name] = FuncV(r)
            else:
                st.locals[a.asname or a.name] = Opaque(f"ext:{base}.{a.name}")
        return [(st, "fall", None)]

    # ------------------------------------------------------------------ calls
    def call(self, fv: Any, args: list, kwargs: dict, st: State, node: Optional[ast.AST] = None) -> Results:
        if isinstance(fv, PartialV):
            return self.call(fv.func, list(fv.args) + args, {**dict(fv.kwargs), **kwargs}, st, node)
        if isinstance(fv, FuncV):
            return self.call_func(fv.qualname, args, kwargs, st, node)
        if isinstance(fv, ClassV):
            return self.construct(fv.qualname, args, kwargs, st, node)
        if isinstance(fv, BoundV):
            if fv.func is not None:
                return self.call_func(fv.func, [fv.recv] + args, kwargs, st, node)
            return self.B.call_builtin(self, fv, args, kwargs, st, node)
        if isinstance(fv, LambdaV):
            return self.call_lambda(fv, args, kwargs, st)
        if isinstance(fv, Term):
            kw = tuple(sorted((k, self.B.freeze_term(self, v, st)) for k, v in kwargs.items()))
            return [(Term("call", (fv,) + tuple(self.B.freeze_term(self, a, st) for a in args) + ((("kw",) + kw,) if kw else ())), st)]
        if isinstance(fv, Opaque) and fv.cls in self.B.EXT_CALLS:
            r = self.B.EXT_CALLS[fv.cls](self, args, kwargs, st, node)
            if r is not None:
                return r
        if isinstance(fv, Opaque):
            hook = self.probes.get("call:" + fv.cls) or self.probes.get("call:*")
            if hook:
                r = hook(self, fv, args, kwargs, st, node)
                if r is not None:
                    return r
            if "." in fv.cls:
                # an accessor fetched with getattr() / stored in a table and called later:  f = ctx.area; f()  ==  ctx.area()
                base, name = fv.cls.rsplit(".", 1)
                mhook = self.probes.get("method:" + base.split(".")[0]) or self.probes.get("method:" + base) or self.probes.get("method:*")
                if mhook:
                    r = mhook(self, Opaque(base, fv.tag), name, args, kwargs, st, node)
                    if r is not None:
                        return r
            return [(Opaque(fv.cls + "()", fv.tag), st)]
        st.note(f"call of unknown callee {ast.unparse(node.func)[:50] if isinstance(node, ast.Call) else fv}")
        return [(Unknown("call"), st)]

    def call_lambda(self, fv: LambdaV, args: list, kwargs: dict, st: State) -> Results:
        node = fv.node
        frame = dict(fv.closure)
        params = [a.arg for a in node.args.args]
        for p, a in zip(params, args):
            frame[p] = a
        frame.update(kwargs)
        st.frames.append(frame)
        out: Results = []
        if fv.module is not None:
            self.ctx_stack.append(fv.module)
        try:
            if isinstance(node, ast.Lambda):
                for v, s in self.eval(node.body, st):
                    s.frames.pop()
                    out.append((v, s))
            else:
                for s, o, v in self.exec_block(node.body, st):
                    s.frames.pop()
                    out.append((v if o in ("return", "raise") else None, s))
        finally:
            if fv.module is not None:
                self.ctx_stack.pop()
        return out

    def bind_params(self, fi: FuncInfo, args: list, kwargs: dict, st: State) -> Optional[dict]:
        a = fi.node.args
        names = [x.arg for x in a.posonlyargs + a.args]
        frame: dict[str, Any] = {}
        if len(args) > len(names) and a.vararg is None:
            return None
        for n, v in zip(names, args):
            frame[n] = v
        if a.vararg is not None:
            frame[a.vararg.arg] = tuple(args[len(names):])
        extra = {}
        kwonly = [x.arg for x in a.kwonlyargs]
        for k, v in kwargs.items():
            if k in names or k in kwonly:
                frame[k] = v
            else:
                extra[k] = v
        if a.kwarg is not None:
            frame[a.kwarg.arg] = st.alloc(HObj("dict", fields=extra))
        elif extra:
            return None
        # defaults
        defaults = a.defaults
        for n, d in zip(names[len(names) - len(defaults):], defaults):
            if n not in frame:
                frame[n] = ("__default__", d)
        for n, d in zip(kwonly, a.kw_defaults):
            if n not in frame and d is not None:
                frame[n] = ("__default__", d)
        for n in names + kwonly:
            if n not in frame:
                return None
        return frame

    def call_func(self, qualname: str, args: list, kwargs: dict, st: State, node: Optional[ast.AST] = None) -> Results:
        if qualname in self.probes:
            r = self.probes[qualname](self, args, kwargs, st, node)
            if r is not None:
                return r
        if qualname in self.atomic:
            return self.B.atomic_predicate(self, qualname, args, st)
        fi = self.model.funcs.get(qualname)
        if fi is None:
            st.note(f"call of unknown function {qualname}")
            return [(Unknown("call"), st)]
        if self.depth >= self.max_depth:
            st.note(f"inlining depth exceeded at {qualname}")
            return [(Unknown("depth"), st)]
        frame = self.bind_params(fi, args, kwargs, st)
        if frame is None:
            st.note(f"cannot bind arguments of {qualname}")
            return [(Unknown("args"), st)]
        self.ctx_stack.append((fi.module, fi.cls))
        self.depth += 1
        try:
            # evaluate defaults in the callee's module context
            st.frames.append({})
            for n, v in list(frame.items()):
                if isinstance(v, tuple) and len(v) == 2 and v[0] == "__default__":
                    res = self.eval(v[1], st)
                    frame[n] = res[0][0] if len(res) == 1 else Unknown("default")
            st.frames[-1] = frame
            is_gen = any(isinstance(n, (ast.Yield, ast.YieldFrom)) for n in walk_no_nested(fi.node))
            if is_gen:
                # generators are materialised: the call yields the list of produced values (laziness is not modelled)
                frame["__yield__"] = st.alloc(HObj("list"))
            out: Results = []
            for s, o, v in self.exec_block(fi.node.body, st):
                acc = s.frames[-1].get("__yield__") if is_gen else None
                s.frames.pop()
                if o == "raise":
                    out.append((v, s))
                elif is_gen:
                    out.append((acc, s))
                elif o == "return":
                    out.append((v, s))
                else:
                    out.append((None, s))
            return self._guard(out)
        finally:
            self.depth -= 1
            self.ctx_stack.pop()

    def construct(self, qualname: str, args: list, kwargs: dict, st: State, node: Optional[ast.AST] = None) -> Results:
        if qualname in self.probes:
            r = self.probes[qualname](self, args, kwargs, st, node)
            if r is not None:
                return r
        ci = self.model.classes.get(qualname)
        if ci is None or qualname in self.opaque_classes:
            return [(Opaque(qualname), st)]
        if self.B.is_enum(self, ci):
            if len(args) == 1:
                for m in self.B.enum_members(self, ci):
                    if m.value == args[0] and is_concrete(args[0]):
                        return [(m, st)]
                if isinstance(args[0], CharSet) or not is_concrete(args[0]):
                    st.note("enum lookup by abstract value")
                    return [(Unknown("enum"), st)]
                return [(Raised("ValueError", node, "no such enum value"), st)]
        init = self.model.find_method(ci, "__init__")
        ref = st.alloc(HObj("obj", cls=qualname))
        if init is not None and init.cls is not None and init.cls.qualname in self.model.classes:
            res = self.call_func(init.qualname, [ref] + args, kwargs, st, node)
            return [(v if isinstance(v, Raised) else ref, s) for v, s in res]
        if self.B.is_dataclass(ci):
            return self.B.init_dataclass(self, ci, ref, args, kwargs, st)
        return [(ref, st)]

    # -------------------------------------------------------------- entry points
    def run_function(self, qualname: str, args: list, kwargs: Optional[dict] = None, st: Optional[State] = None) -> Results:
        st = st or State()
        fi = self.model.func(qualname)
        if not self.ctx_stack:
            self.steps = 0
        self.ctx_stack.append((fi.module, fi.cls))
        try:
            res = self.call_func(fi.qualname, args, kwargs or {}, st)
        finally:
            self.ctx_stack.pop()
        sink = getattr(self, "imprecision_sink", None)
        if sink is not None and not self.ctx_stack:
            for _, s in res:
                if s.imprecise:
                    sink(s.imprecise)
        return res


def _as_load(t: ast.expr) -> ast.expr:
    import copy

    n = copy.deepcopy(t)
    for x in ast.walk(n):
        if hasattr(x, "ctx"):
            x.ctx = ast.Load()
    return n
