"""crash between the commit of an edited page and the file_hash.json write of `db reindex`, then rerun: index body must keep the ZID."""
import os, sys, sqlite3, subprocess, tempfile, pathlib, shutil, textwrap
from freezegun import freeze_time
z = pathlib.Path(tempfile.mkdtemp()) / "z"; z.mkdir()
(z / "a.zo").write_text("# Title\n\n- first note\n- second note\n")
DRIVER = textwrap.dedent('''
import sys, os, pathlib
from freezegun import freeze_time
from zorg.app.__main__ import main
day, crash = sys.argv[1], sys.argv[2]
if crash == "1":
    import zorg.service.handlers as h
    orig = h._write_file_hash_to_disk
    def boom(*a, **k):
        os._exit(99)
    h._write_file_hash_to_disk = boom
with freeze_time(day):
    rc = main(["--log=null", "--dir", sys.argv[3]] + sys.argv[4:])
sys.exit(rc)
''')
(z.parent / "driver.py").write_text(DRIVER)
def run(day, crash, *args):
    return subprocess.run([sys.executable, str(z.parent / "driver.py"), day, crash, str(z)] + list(args), env={**os.environ, "HOME": str(z.parent)}, capture_output=True, text=True).returncode
assert run("2024-01-01 12:00:00", "0", "db", "create") == 0
txt = (z / "a.zo").read_text(); print(txt)
(z / "a.zo").write_text(txt.replace("first note", "first note EDITED"))
rc = run("2024-01-05 12:00:00", "1", "db", "reindex"); print("crashed rc", rc)
rc = run("2024-01-05 12:00:00", "0", "db", "reindex"); print("rerun rc", rc)
print((z / "a.zo").read_text())
c = sqlite3.connect(z / ".zorg" / "zorg.db")
rows = list(c.execute("select zid, body from note order by id")); print(rows)
bad = [r for r in rows if r[0] not in r[1]]
shutil.rmtree(z.parent)
assert not bad, f"indexed body lost its ZID: {bad}"
print("OK")
