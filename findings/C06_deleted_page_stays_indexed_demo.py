"""delete an indexed page, run `db reindex`: its notes must leave the index; a rename must not duplicate."""
import os, sys, sqlite3, subprocess, tempfile, pathlib, shutil
z = pathlib.Path(tempfile.mkdtemp()) / "z"; z.mkdir()
(z / "a.zo").write_text("# A\n\n- note in a\n"); (z / "b.zo").write_text("# B\n\n- note in b\n- second in b\n")
def run(*args):
    return subprocess.run([sys.executable, "-c", "import sys; from zorg.app.__main__ import main; sys.exit(main(sys.argv[1:]))", "--log=null", "--dir", str(z)] + list(args), env={**os.environ, "HOME": str(z.parent)}, capture_output=True, text=True)
assert run("db", "create").returncode == 0
(z / "b.zo").rename(z / "c.zo")
r = run("db", "reindex"); assert r.returncode == 0, r.stderr[-400:]
c = sqlite3.connect(z / ".zorg" / "zorg.db")
pages = sorted(x[0] for x in c.execute("select path from page")); bodies = sorted(x[0].split(" ", 1)[1] for x in c.execute("select body from note"))
print(pages, bodies)
r2 = run("db", "reindex"); print(r2.stdout.strip()[-60:])
shutil.rmtree(z.parent)
assert pages == ["a.zo", "c.zo"], pages
assert bodies == ["note in a", "note in b", "second in b"], bodies
print("OK")
