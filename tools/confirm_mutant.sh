#!/bin/bash
# usage: tools/confirm_mutant.sh <dir with patch.diff demo.py> -> writes <dir>/confirm.json
# Confirms in a scratch worktree of /repo HEAD: patch applies, suite passes with it, demo passes without and fails with it.
d=$(readlink -f "$1")
wt=$(mktemp -d /tmp/zconf.XXXXXX); rmdir "$wt"
git -C /repo worktree add -q --detach "$wt" HEAD || exit 3
cd "$wt"
cp "$d/demo.py" "$wt/demo_x.py"
export PYTHONPATH="$wt/src"
clean_rc=$( (timeout 600 /venv/bin/python demo_x.py > "$d/demo_clean.log" 2>&1; echo $?) )
applies=yes
if ! git apply "$d/patch.diff" 2>/dev/null; then
  if ! git apply --3way "$d/patch.diff" 2>/dev/null; then
    if ! patch -p1 -s -F3 < "$d/patch.diff" >/dev/null 2>&1; then applies=no; fi
  fi
fi
git diff -- src > "$d/patch_on_head.diff"
mut_rc=$( (timeout 600 /venv/bin/python demo_x.py > "$d/demo_mutant.log" 2>&1; echo $?) )
suite=$(timeout 900 /venv/bin/python -m pytest -q -p no:cacheprovider tests 2>&1 | tail -1)
cd /
git -C /repo worktree remove --force "$wt"
printf '{"applies": "%s", "demo_clean_rc": %s, "demo_mutant_rc": %s, "suite_with_mutant": "%s", "head": "%s"}\n' "$applies" "$clean_rc" "$mut_rc" "$(echo $suite | tr -d '"')" "$(git -C /repo rev-parse --short HEAD)" > "$d/confirm.json"
cat "$d/confirm.json"
