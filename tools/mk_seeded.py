import json, shutil, subprocess, re
from pathlib import Path
NEEDS = {
 "C01_A": ("enterId returns early inside quoted words, skipping the position counter", "an item that starts with a quoted word directly followed by a bare ZID / YYMMDD / YYYY-MM-DD word"),
 "C01_B": ("empty-body check hoisted into exitBase_todo as an early return that skips the priority/status reset", "a whitespace-only todo with explicit priority followed (anywhere later) by a todo without priority"),
 "C02_A": ("exitH1..H4_section refactored into a helper that forgets to reset hN_date", "a dated section header, that section closing, and a later dateless note"),
 "C02_B": ("_add_tag/_add_prop unified behind one scope helper that uses in_first_comment for properties too", "a property on the second or later line of the page header block"),
 "C03_A": ("kinds compiled to todo_status IN (...) which never matches NULL", "a kind atom combining '-' with another kind, e.g. W -x"),
 "C03_B": ("ID/RID/ZID link helpers merged with `elif` between ID and RID", "a target note carrying both ID:: and RID:: that is referenced through [@rid]"),
 "C04_A": ("prop:<key> extracted with lstrip('prop:')", "a select key starting with p, r or o (S prop:priority)"),
 "C04_B": ("sub-filter parent stack is peeked but never popped", "parentheses nested at depth >= 2"),
 "C05_A": ("`while next_ch in unsupported` became `if`", "the 41st ZID allocated for one date (suffix 0j)"),
 "C05_B": ("write-back splits the page with splitlines(keepends=True)", "a page containing U+2028 / \\x0c above a ZID-less note"),
 "C06_A": ("reindex writes a freshly computed full hash map at the end", "edits to two pages, `db reindex <one of them>`, then a plain reindex"),
 "C06_B": ("_add_zids strips a leading word accepted by is_date_spec instead of is_long_date_spec", "a new ZID-less note whose first word looks like 10m / 2d / YYMMDD"),
 "C07_A": ("unsupported-character tuple rewritten as frozenset('IOQSgijpqy'), losing 'l'", ">= 41 allocations on one date (suffix 0l)"),
 "C07_B": ("is_zid 'hardened' to require a 2-character alphanumeric suffix", "> 2601 ZIDs on one date (3-character suffixes)"),
 "C08_A": ("is_short_date_spec range-checks month/day instead of parsing", "an item whose first word is e.g. 240230 or 240431#AB (valid page, strptime ValueError)"),
 "C08_B": ("ErrorManager.syntaxError ignores errors whose offending token is EOF", "a file truncated mid-entry (only syntax errors at EOF)"),
 "C09_A": ("_to_comparable_file uses rstrip('.zo')", "a page whose name ends in o, z or '.' (todo.zo and tod.zo collapse)"),
 "C09_B": ("composite ORDER BY key drops empty component keys", "O priority none over a group mixing plain notes and todos with a lower-case page path"),
 "C10_A": ("FileManager stages writes in a dict and commits later; delete_note still reads the file from disk", "note move whose destination is the note's own page"),
 "C10_B": ("inherited metadata inserted after the body's first word (partition(' ')) instead of after the ZID", "moving a note that has a modify-date prefix and inherited tags"),
 "C11_A": ("re-stamp body built with ' '.join(body.split()[1:])", "a multi-line note stamped on an earlier day, edited again later, then another note of the page edited on a third day"),
 "C11_B": ("index side uses datetime.utcnow().date(), file side the local date", "a stamping reindex while local and UTC calendar days differ"),
 "C12_A": ("priority emitted only for OPEN/BLOCKED todos (allow-list forgets PARENT_TODO)", "a '>' todo with a non-default priority"),
 "C12_B": ("property scan pops either the modify date or the ZID, not both", "a headline property on a note carrying both a modify date and a ZID (after an edit + reindex)"),
 "C13_A": ("'atomic' write-back through a hidden sibling .<name>.zo temp file", "a kill between the temp-file write and the rename (rglob('*.zo') matches dot-files)"),
 "C13_B": ("per-page hash-map checkpoint written before the page's commit", "a kill between the checkpoint write and session.commit()"),
 "C14_A": ("link rewriting refactored to one regex built from the raw page name (no re.escape)", "a page name containing a regex metacharacter (2024.05.10, c++)"),
 "C14_B": ("simplify_fname uses rstrip('.zo')", "rename spelled with the .zo extension of a page whose name ends in o/z"),
 "C15_A": ("parentheses skipped when the saved clause starts with '(' and ends with ')'", "a saved clause like (o | x) +p | (- #home) AND-ed with something"),
 "C15_B": ("expanded clauses cached per outer file mtime", "a nested saved query edited/deleted while the outer .zoq is untouched, within one process"),
 "C16_A": ("existence guard weakened to 'exists and non-empty'", "an existing zero-byte target matching a pattern"),
 "C16_B": ("stripped template copy reused when its mtime is newer", "two templates with the same basename rendered in one process"),
 "C17_A": ("word scan also strips '<' and '>'", "a line whose kind prefix is '<' or '>'"),
 "C17_B": ("pages = sorted(...) loses the set de-duplication", "an ID owned by several notes of one page ([#id] on a section-level ID)"),
 "C18_A": ("cycle guard implemented as a global visited set", "a group reached twice (diamond) or named twice"),
 "C18_B": ("today = datetime.now(timezone.utc)", "local calendar day differs from the UTC day"),
}
out = Path("/verif/seeded")
for d in sorted(Path("/tmp/mutants").glob("C*")):
    mid = d.name
    pid = mid.split("_")[0]
    tgt = out / mid
    tgt.mkdir(parents=True, exist_ok=True)
    src_patch = d / "patch_on_head.diff"
    if not src_patch.exists() or not src_patch.read_text().strip():
        src_patch = d / "patch.diff"
    shutil.copy(src_patch, tgt / "patch.diff")
    shutil.copy(d / "demo.py", tgt / "demo.py")
    conf = json.loads((d / "confirm.json").read_text())
    checks = [pid] + (["C07"] if mid == "C05_A" else [])
    det = {}
    for c in checks:
        r = subprocess.run(["/verif/tools/try_mutant.sh", str(tgt / "patch.diff"), c], capture_output=True, text=True)
        rules = sorted(set(re.findall(r"\[(C\d\d\.R\d)\]", r.stdout)))
        det[c] = dict(violation="VIOLATION" in r.stdout, rules=rules)
    what, needs = NEEDS[mid]
    meta = dict(id=mid, breaks_property=pid, change=what, needs_to_manifest=needs, source="independent sub-agent given only the property text and a scratch worktree",
                confirmed=dict(repo_head=conf["head"], patch_applies=conf["applies"], suite_with_change=conf["suite_with_mutant"], demo_exit_clean=conf["demo_clean_rc"], demo_exit_with_change=conf["demo_mutant_rc"],
                               how="tools/confirm_mutant.sh: scratch worktree of /repo HEAD, `PYTHONPATH=<wt>/src /venv/bin/python demo.py` before and after `git apply patch.diff`, then the pinned pytest suite with the change"),
                detected_by=det)
    (tgt / "meta.json").write_text(json.dumps(meta, indent=1) + "\n")
    print(mid, det)
