"""Store the round-12 independent mutants (/tmp/mutants12/<Cxx_A|B>) as /verif/seeded/<Cxx_U|V> with detection results.

Detection is computed with the in-memory overlay runner (zverif.selftest.run_seeded) against ALL 18 checks; only
checks that report a new violation are listed under detected_by (an empty detected_by = not caught, recorded as such).
Re-runnable: `mk_seeded3.py --refresh` recomputes detected_by of the stored E/F entries from /verif/seeded itself.
"""
import json, shutil, sys
from concurrent.futures import ProcessPoolExecutor
from pathlib import Path

sys.path.insert(0, "/verif")
from zverif.selftest import run_seeded  # noqa: E402

NEEDS = {k: tuple(v) for k, v in json.loads(Path("/verif/tools/needs12.json").read_text()).items()}
ALL = [f"C{i:02d}" for i in range(1, 19)]
LET = {"A": "W", "B": "X"}
out = Path("/verif/seeded")


def detect(patch: Path, pid: str) -> dict:
    jobs = [(f"{patch.parent.name}@{c}", c, str(patch), "/repo") for c in ALL]
    with ProcessPoolExecutor(max_workers=16) as ex:
        rs = list(ex.map(run_seeded, jobs))
    det = {}
    for c, r in zip(ALL, rs):
        if r["status"] == "ok":
            det[c] = dict(violation=True, rules=r["rules"])
    return det


def main() -> None:
    refresh = "--refresh" in sys.argv
    only = {a for a in sys.argv[1:] if not a.startswith("-")}
    if refresh:
        for tgt in sorted(out.glob("C??_[WX]")):
            if only and tgt.name not in only:
                continue
            meta = json.loads((tgt / "meta.json").read_text())
            meta["detected_by"] = detect(tgt / "patch.diff", meta["breaks_property"])
            (tgt / "meta.json").write_text(json.dumps(meta, indent=1) + "\n")
            print(tgt.name, sorted(meta["detected_by"]), flush=True)
        return
    for d in sorted(Path("/tmp/mutants12").glob("C??_?")):
        mid = d.name
        pid, letter = mid.split("_")
        new_id = f"{pid}_{LET[letter]}"
        if only and mid not in only and new_id not in only:
            continue
        if not (d / "confirm.json").exists():
            print("skip (not confirmed)", mid)
            continue
        tgt = out / new_id
        tgt.mkdir(parents=True, exist_ok=True)
        shutil.copy(d / "patch.diff", tgt / "patch.diff")
        shutil.copy(d / "demo.py", tgt / "demo.py")
        conf = json.loads((d / "confirm.json").read_text())
        what, needs = NEEDS[mid]
        meta = dict(id=new_id, round=12, breaks_property=pid, change=what, needs_to_manifest=needs, source="independent sub-agent given only the property text and a scratch worktree",
                    confirmed=dict(repo_head=conf["head"], patch_applies=conf["applies"], suite_with_change=conf["suite_with_mutant"], demo_exit_clean=conf["demo_clean_rc"], demo_exit_with_change=conf["demo_mutant_rc"],
                                   how="scratch worktree of /repo HEAD, `PYTHONPATH=<wt>/src /venv/bin/python demo.py` before and after `git apply patch.diff`, then the pinned pytest suite with the change"),
                    detected_by=detect(tgt / "patch.diff", pid))
        (tgt / "meta.json").write_text(json.dumps(meta, indent=1) + "\n")
        print(new_id, sorted(meta["detected_by"]), flush=True)


if __name__ == "__main__":
    main()
