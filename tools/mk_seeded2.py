"""Store the round-2 independent mutants (/tmp/mutants2/<Cxx_A|B>) as /verif/seeded/<Cxx_C|D> with detection results."""
import json, shutil, subprocess, re, sys
from pathlib import Path
NEEDS = {
 "C01_A": ("short dates parsed with %y instead of '20' + %Y", "an item whose ZID / modify date has YY >= 69 (read as 19YY)"),
 "C01_B": ("state field modify_date became an always-truthy property (falls back to create_date)", "an item whose first word is a plain word and whose second word looks like a ZID"),
 "C02_A": ("_reset_note_context returns early when no id was seen in the previous item", "an item without id-like words that carries tags/properties, followed by another item"),
 "C02_B": ("inherited tags only taken from sections whose object is currently set, stopping at the first closed level", "a note in a top-level H2 section (no H1) of a page whose H2 header carries tags"),
 "C03_A": ("ID and RID link conditions merged behind if/elif", "a file-link target note carrying both ID:: and RID::, referenced through the RID"),
 "C03_B": ("case flag derived from getText().startswith('c')", "a negated case-sensitive text filter !c'...'"),
 "C04_A": ("short dates parsed with %y instead of '20' + %Y", "a date filter / range whose YYMMDD has YY >= 69"),
 "C04_B": ("sub-filter owner kept in a single attribute instead of the stack top", "parentheses nested at depth >= 2 followed by another atom"),
 "C05_A": ("h0 stored only when it has loose blocks", "a page whose section-less part consists of H2 sections only"),
 "C05_B": ("write-back strips the leading date with split() instead of split(' ')", "a ZID-less note with a long create date and runs of blanks / tabs in its first line"),
 "C06_A": ("hashes reused from the recorded map when mtime is older than the map", "a page edited within the mtime granularity of / before the last hash-map write (e.g. restored from backup)"),
 "C06_B": ("per-page checkpoint writes the whole examined hash map", "an aborted reindex after the first of several changed pages"),
 "C07_A": ("_write_to_disk keeps only counters for dates >= the one just used", "allocating for an earlier date after a later one (back-dated notes)"),
 "C07_B": ("is_short_date_spec validates with hand-written calendar arithmetic (leap rule inverted)", "a ZID dated Feb 29 of a leap year, or Feb 29 of a non-leap year"),
 "C08_A": ("per-page checkpoint of the whole hash map inside the loop", "a crash between two pages of one reindex"),
 "C08_B": ("implicit top-level section created with `or` chain but never stored on the page", "a page whose first section is an H2 (no H1)"),
 "C09_A": ("section label always prepends the H1 title", "grouping by section on a page without H1 (stray separator)"),
 "C09_B": ("property values selected with .get() and truthiness", "a property whose value is the empty string / falsy"),
 "C10_A": ("priority emitted only for OPEN todos", "moving a blocked or parent todo with non-default priority"),
 "C10_B": ("hidden metadata skipped when source and destination page are the same", "note move within one page out of a tagged section"),
 "C11_A": ("Note equality compares to_string() output", "an edit that only changes fields to_string does not render"),
 "C11_B": ("re-stamp strips the old date with split() instead of split(' ')", "a multi-line / multi-blank stamped note edited again"),
 "C12_A": ("`while next_ch in unsupported` became `if`", "two unsupported characters in a row (i, j) in the suffix alphabet"),
 "C12_B": ("old .zoq header selected by filter instead of takewhile", "a saved query whose previous results contain '#' lines (section headers)"),
 "C13_A": ("remove_file_by_name skipped for pages missing from the hash map", "a page indexed but absent from the hash map (crash between commit and hash write)"),
 "C13_B": ("hash map merged with the on-disk map before writing", "a deleted or renamed page: its stale entry survives forever"),
 "C14_A": ("simplify_fname uses Path.with_suffix('')", "renaming a page whose name contains a dot (2024.05.10)"),
 "C14_B": ("get_all_zfiles skips files in dot-directories", "a linking page under a dot-directory of the notes dir"),
 "C15_A": ("parentheses skipped when the saved clause starts with '(' and ends with ')'", "a saved clause (a) | (b) AND-ed with something"),
 "C15_B": ("reference pattern \\{(\\w+)\\}", "a saved query name containing '-' or '/'"),
 "C16_A": ("stripped template copy reused when its mtime is newer", "two templates with the same basename, or a template edited within mtime granularity"),
 "C16_B": ("date-likeness decided by strptime alone", "a 6- or 7-digit capture (202411)"),
 "C17_A": ("is_zid via regex with a 2-character suffix", "a line containing a ZID with a 3-character suffix"),
 "C17_B": ("'multiple pages' decided on the number of notes", "an ID owned by several notes of one page"),
 "C18_A": ("cycle guard as module-level active set not released on error", "an expansion that raises, then any later expansion in the same process"),
 "C18_B": ("day window computed by an lru_cache'd helper", "a process that lives across midnight; callers mutating the shared lists"),
}
EXTRA = {"C01_A": ["C04"], "C04_A": ["C01"], "C03_B": ["C04"], "C07_B": ["C08"], "C12_A": ["C07", "C05"], "C10_A": ["C12"], "C17_A": ["C07"], "C06_B": ["C13", "C08"], "C08_A": ["C13", "C06"], "C13_B": ["C06"], "C13_A": ["C06"], "C06_A": ["C13"]}
out = Path("/verif/seeded")
only = set(sys.argv[1:])
for d in sorted(Path("/tmp/mutants2").glob("C??_?")):
    mid = d.name
    if only and mid not in only:
        continue
    pid, letter = mid.split("_")
    new_id = f"{pid}_{ {'A': 'C', 'B': 'D'}[letter] }"
    tgt = out / new_id
    tgt.mkdir(parents=True, exist_ok=True)
    shutil.copy(d / "patch.diff", tgt / "patch.diff")
    shutil.copy(d / "demo.py", tgt / "demo.py")
    conf = json.loads((d / "confirm.json").read_text())
    det = {}
    for c in [pid] + EXTRA.get(mid, []):
        r = subprocess.run(["/verif/tools/try_mutant.sh", str(tgt / "patch.diff"), c], capture_output=True, text=True)
        rules = sorted(set(re.findall(r"\[(C\d\d\.R\d)\]", r.stdout)))
        if "VIOLATION" in r.stdout or c == pid:
            det[c] = dict(violation="VIOLATION" in r.stdout, rules=rules)
    what, needs = NEEDS[mid]
    meta = dict(id=new_id, round=2, breaks_property=pid, change=what, needs_to_manifest=needs, source="independent sub-agent given only the property text and a scratch worktree",
                confirmed=dict(repo_head=conf["head"], patch_applies=conf["applies"], suite_with_change=conf["suite_with_mutant"], demo_exit_clean=conf["demo_clean_rc"], demo_exit_with_change=conf["demo_mutant_rc"],
                               how="scratch worktree of /repo HEAD, `PYTHONPATH=<wt>/src /venv/bin/python demo.py` before and after `git apply patch.diff`, then the pinned pytest suite with the change"),
                detected_by=det)
    (tgt / "meta.json").write_text(json.dumps(meta, indent=1) + "\n")
    print(new_id, det, flush=True)
