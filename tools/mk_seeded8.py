"""Store the round-8 independent mutants (/tmp/mutants8/<Cxx_A|B>) as /verif/seeded/<Cxx_O|P> with detection results.

Detection is computed with the in-memory overlay runner (zverif.selftest.run_seeded) against ALL 18 checks; only
checks that report a new violation are listed under detected_by (an empty detected_by = not caught, recorded as such).
Re-runnable: `mk_seeded3.py --refresh` recomputes detected_by of the stored E/F entries from /verif/seeded itself.
"""
import json, shutil, sys
from concurrent.futures import ProcessPoolExecutor
from pathlib import Path

sys.path.insert(0, "/verif")
from zverif.selftest import run_seeded  # noqa: E402

NEEDS = {
 "C01_A": ("short-date helpers switched to %y (pivot year 69)", "an item whose modify date has a two-digit year of 69 or more"),
 "C01_B": ("enterH2_header builds the implicit top-level section without attaching it to the page", "a page whose body opens directly with an H2 section"),
 "C02_A": ("_add_tag skips a value that is already in scope (the previous note's context is still live at a header)", "a header carrying the same tag as the last item before it"),
 "C02_B": ("properties merged with setdefault from the outermost scope inwards", "the same key defined in two enclosing scopes of a note that does not set it"),
 "C03_A": ("case-sensitive quoted text through SQLite GLOB with the value unescaped", "a case-sensitive text containing * ? or ["),
 "C03_B": ("`op` initialised once outside the property-filter loop", "`!k:*` iterated before another property filter of the same AND group (set order)"),
 "C05_A": ("_add_zid_to_line lstrips the words after a leading creation date", "a ZID-less note starting with YYYY-MM-DD followed by two or more blanks"),
 "C05_B": ("_UNSUPPORTED_ZID_CHARS retyped as frozenset('IOQSgilpqy') (j lost)", "the 40th ZID allocated for one date"),
 "C06_A": ("the hash map written by reindex is {**old, **new}", "a page deleted, reindexed, restored byte-identically, reindexed"),
 "C06_B": ("re-stamp path joins note.body.split() (flattens multi-line bodies in the index)", "a multi-line note already stamped, edited again on a later day"),
 "C08_A": ("the error collector is also attached to the lexer", "a valid page containing a TAB / form feed / control character"),
 "C08_B": ("reindex defers the refusal of broken pages to the end of the run (after hash map and commit)", "a broken page, one refused reindex, then a second reindex"),
 "C11_A": ("re-stamp path joins note.body.split()", "a bulleted note stamped on one day and edited again on a later day"),
 "C11_B": ("Note.__eq__ compares to_string()", "a priority-only edit of a closed / cancelled todo"),
 "C12_A": ("to_string writes the priority for o and < only", "a parent todo (>) with a priority other than the default"),
 "C12_B": ("hidden metadata spliced after the first word of the body", "moving a note that has a modify date and inherited tags"),
 "C14_A": ("links matched with a regex built from the unescaped page name", "renaming a page whose name contains . + ( * ?"),
 "C14_B": ("one write per link form, each from the text as read", "a file that links to the page both plainly and with an anchor"),
 "C18_A": ("cycle guard with a shared, never-popped visited set", "the same group referenced twice under one top-level argument"),
 "C18_B": ("the seven-day window memoised with lru_cache", "two expansions on different days in one process"),
}
ALL = [f"C{i:02d}" for i in range(1, 19)]
LET = {"A": "O", "B": "P"}
out = Path("/verif/seeded")


def detect(patch: Path, pid: str) -> dict:
    jobs = [(f"{patch.parent.name}@{c}", c, str(patch), "/repo") for c in ALL]
    with ProcessPoolExecutor(max_workers=16) as ex:
        rs = list(ex.map(run_seeded, jobs))
    det = {}
    for c, r in zip(ALL, rs):
        if r["status"] == "ok":
            det[c] = dict(violation=True, rules=r["rules"])
    return det


def main() -> None:
    refresh = "--refresh" in sys.argv
    only = {a for a in sys.argv[1:] if not a.startswith("-")}
    if refresh:
        for tgt in sorted(out.glob("C??_[OP]")):
            if only and tgt.name not in only:
                continue
            meta = json.loads((tgt / "meta.json").read_text())
            meta["detected_by"] = detect(tgt / "patch.diff", meta["breaks_property"])
            (tgt / "meta.json").write_text(json.dumps(meta, indent=1) + "\n")
            print(tgt.name, sorted(meta["detected_by"]), flush=True)
        return
    for d in sorted(Path("/tmp/mutants8").glob("C??_?")):
        mid = d.name
        pid, letter = mid.split("_")
        new_id = f"{pid}_{LET[letter]}"
        if only and mid not in only and new_id not in only:
            continue
        if not (d / "confirm.json").exists():
            print("skip (not confirmed)", mid)
            continue
        tgt = out / new_id
        tgt.mkdir(parents=True, exist_ok=True)
        shutil.copy(d / "patch.diff", tgt / "patch.diff")
        shutil.copy(d / "demo.py", tgt / "demo.py")
        conf = json.loads((d / "confirm.json").read_text())
        what, needs = NEEDS[mid]
        meta = dict(id=new_id, round=8, breaks_property=pid, change=what, needs_to_manifest=needs, source="independent sub-agent given only the property text and a scratch worktree",
                    confirmed=dict(repo_head=conf["head"], patch_applies=conf["applies"], suite_with_change=conf["suite_with_mutant"], demo_exit_clean=conf["demo_clean_rc"], demo_exit_with_change=conf["demo_mutant_rc"],
                                   how="scratch worktree of /repo HEAD, `PYTHONPATH=<wt>/src /venv/bin/python demo.py` before and after `git apply patch.diff`, then the pinned pytest suite with the change"),
                    detected_by=detect(tgt / "patch.diff", pid))
        (tgt / "meta.json").write_text(json.dumps(meta, indent=1) + "\n")
        print(new_id, sorted(meta["detected_by"]), flush=True)


if __name__ == "__main__":
    main()
