"""Store the round-11 independent mutants (/tmp/mutants11/<Cxx_A|B>) as /verif/seeded/<Cxx_U|V> with detection results.

Detection is computed with the in-memory overlay runner (zverif.selftest.run_seeded) against ALL 18 checks; only
checks that report a new violation are listed under detected_by (an empty detected_by = not caught, recorded as such).
Re-runnable: `mk_seeded3.py --refresh` recomputes detected_by of the stored E/F entries from /verif/seeded itself.
"""
import json, shutil, sys
from concurrent.futures import ProcessPoolExecutor
from pathlib import Path

sys.path.insert(0, "/verif")
from zverif.selftest import run_seeded  # noqa: E402

NEEDS = {
 "C02_A": ("enterDate drops the in_note guard (stale ids_in_note after an item)", "a dated section header directly after a one-identifier undated item"),
 "C02_B": ("_get_current_tags stops at the first section level that is not open", "a tagged H2 section that precedes the first H1"),
 "C03_A": ("property values typed by int() (accepts 1_000)", "a property comparison whose value is digits with an underscore"),
 "C03_B": ("anchored link match through .startswith() (prefix not escaped)", "a page name with _ and an anchored link to a page differing at that position"),
 "C04_A": ("short-date helpers switched to %y (pivot year 69)", "a short date with a two-digit year of 69 or more in a date range"),
 "C04_B": ("the `c` flag of a text atom is read from the raw text (which starts with ! when negated)", "!c'...' (both prefixes on one atom)"),
 "C05_A": ("PageConverter drops the implicit top-level section when it has no loose blocks", "a page whose body starts with an H2 section"),
 "C05_B": ("`while next_ch in unsupported` became `if`", "the 40th ZID of one date (0h -> 0j)"),
 "C06_A": ("the write-back records only the rewritten page's hash (the map is overwritten)", "a write-back, then another page deleted / renamed, then a plain reindex"),
 "C06_B": ("the bus handles pending events after a command failed, then re-raises", "a reindex aborted by a broken page after a page with a write-back, a later page edited"),
 "C07_A": ("next_ids.json keeps only the 366 latest dates", "allocations on 367+ dates, then one on the oldest"),
 "C07_B": ("hand-written calendar in is_short_date_spec (no divisible-by-400 rule)", "a note created on 2000-02-29"),
 "C08_A": ("ErrorManager.syntaxError dereferences the exception object (None for inline repairs)", "a page with a missing ]] / an extraneous token"),
 "C08_B": ("the error collector is attached on the quiet path only", "a broken page compiled verbosely"),
 "C09_A": ("count() counts distinct values", "two notes that render identically, in one group"),
 "C09_B": ("ORDER BY date keys use the two-digit-year short date", "notes dated on both sides of a century boundary"),
 "C10_A": ("to_string writes the priority for open todos only", "a blocked / parent todo with a priority, moved"),
 "C10_B": ("hidden metadata is not written when the destination is the note's own page", "a note moved to the bottom of its own page out of a tagged section"),
 "C11_A": ("Note.__eq__ compares to_string()", "a priority-only edit of a closed / cancelled todo"),
 "C11_B": ("remove_file_by_name skipped for pages without a hash entry", "a path-restricted reindex, then an edit of another page and a plain reindex"),
 "C12_A": ("trailing blanks stripped from every line of the query output", "a multi-line note whose inner lines end in blanks"),
 "C12_B": ("hidden metadata spliced after the first word of the body", "moving a note that has a modify date and inherited tags"),
 "C13_A": ("write-back through a hidden sibling file + replace (matched by *.zo)", "a kill between the sibling write and the rename"),
 "C13_B": ("page / section rows deleted before the per-note loop with its interior commits", "a kill after an interior commit of the removal"),
 "C14_A": ("get_all_zfiles skips hidden directories by looking at absolute path parts", "a notes directory below a dot-directory (~/.local/share/org)"),
 "C14_B": ("simplify_fname uses Path.stem", "renaming a page in a sub-directory, named with its .zo extension"),
 "C15_A": ("exitSubfilter merges a group into an enclosing conjunction that is still empty", "two saved-query references with alternatives side by side, nothing else in the conjunction"),
 "C15_B": ("saved-query path built with with_suffix('.zoq')", "a saved query whose name contains a dot"),
 "C16_A": ("process_var_map drops falsy values", "a named group that captured the empty string"),
 "C16_B": ("the target is opened for writing before the template is rendered", "a render that fails (impossible date, undefined variable)"),
 "C17_A": ("remove_file_by_name skipped for pages without a hash entry", "an aborted reindex, a note moved between pages, a second reindex"),
 "C17_B": ("get_notes_by_id with two independent EXISTS sub-queries", "a note carrying the key and, in another property, the looked-up value"),
 "C18_A": ("the date window is read with datetime.now(tz=utc)", "a local timezone whose calendar date differs from UTC's"),
 "C18_B": ("an empty group is treated like an unknown one and kept as a literal path", "a group whose member list is empty"),
 "C01_A": ("short-date helpers switched to %y (pivot year 69)", "an item whose modify date has a two-digit year of 69 or more"),
 "C01_B": ("enterH2_header builds the implicit top-level section without attaching it to the page", "a page whose body opens directly with an H2 section"),
}
ALL = [f"C{i:02d}" for i in range(1, 19)]
LET = {"A": "U", "B": "V"}
out = Path("/verif/seeded")


def detect(patch: Path, pid: str) -> dict:
    jobs = [(f"{patch.parent.name}@{c}", c, str(patch), "/repo") for c in ALL]
    with ProcessPoolExecutor(max_workers=16) as ex:
        rs = list(ex.map(run_seeded, jobs))
    det = {}
    for c, r in zip(ALL, rs):
        if r["status"] == "ok":
            det[c] = dict(violation=True, rules=r["rules"])
    return det


def main() -> None:
    refresh = "--refresh" in sys.argv
    only = {a for a in sys.argv[1:] if not a.startswith("-")}
    if refresh:
        for tgt in sorted(out.glob("C??_[UV]")):
            if only and tgt.name not in only:
                continue
            meta = json.loads((tgt / "meta.json").read_text())
            meta["detected_by"] = detect(tgt / "patch.diff", meta["breaks_property"])
            (tgt / "meta.json").write_text(json.dumps(meta, indent=1) + "\n")
            print(tgt.name, sorted(meta["detected_by"]), flush=True)
        return
    for d in sorted(Path("/tmp/mutants11").glob("C??_?")):
        mid = d.name
        pid, letter = mid.split("_")
        new_id = f"{pid}_{LET[letter]}"
        if only and mid not in only and new_id not in only:
            continue
        if not (d / "confirm.json").exists():
            print("skip (not confirmed)", mid)
            continue
        tgt = out / new_id
        tgt.mkdir(parents=True, exist_ok=True)
        shutil.copy(d / "patch.diff", tgt / "patch.diff")
        shutil.copy(d / "demo.py", tgt / "demo.py")
        conf = json.loads((d / "confirm.json").read_text())
        what, needs = NEEDS[mid]
        meta = dict(id=new_id, round=11, breaks_property=pid, change=what, needs_to_manifest=needs, source="independent sub-agent given only the property text and a scratch worktree",
                    confirmed=dict(repo_head=conf["head"], patch_applies=conf["applies"], suite_with_change=conf["suite_with_mutant"], demo_exit_clean=conf["demo_clean_rc"], demo_exit_with_change=conf["demo_mutant_rc"],
                                   how="scratch worktree of /repo HEAD, `PYTHONPATH=<wt>/src /venv/bin/python demo.py` before and after `git apply patch.diff`, then the pinned pytest suite with the change"),
                    detected_by=detect(tgt / "patch.diff", pid))
        (tgt / "meta.json").write_text(json.dumps(meta, indent=1) + "\n")
        print(new_id, sorted(meta["detected_by"]), flush=True)


if __name__ == "__main__":
    main()
