"""tools/dbg.py <diff> <PID>: run one check on an in-memory overlay of /repo and print every new finding and undecided message in full."""
import sys
sys.path.insert(0, "/verif")
from pathlib import Path
from zverif.core import Repo, collect
from zverif.selftest import apply_unified_diff
diff, pid = sys.argv[1], sys.argv[2].upper()
ov = apply_unified_diff(Path(diff).read_text(), Repo(Path("/repo")).read) if diff != "-" else {}
res = collect(pid, Repo(Path("/repo"), overlay=ov))
for f in res["new"]:
    print("NEW", f["rule"], "|", f["key"], "\n    ", f["message"])
for e in res["errors"]:
    print("UNDECIDED", e)
print("known", res["known"], "obligations", res["obligations"])
