"""Fill an agent prompt template for one property: tools/mk_prompt.py <mutant|benign> <PID> <worktree-root> > prompt.txt
mutant prompts get only the property's text (title, statement, quantifier); benign prompts also get the anchors."""
import json, sys
kind, pid, root = sys.argv[1:4]
prop = next(j for j in map(json.loads, open("/verif/properties.jsonl")) if j["id"] == pid)
if kind == "mutant":
    text = f"{prop['title']}\n\n{prop['statement']}\n\nQuantified over: {prop['quantifier']['text']}"
    tmpl = open("/verif/tools/agent_prompt.tmpl").read().replace("/tmp/wt/", root.rstrip("/") + "/")
else:
    mech = "\n".join(f"  - {m['name']}  [{m['where']}]" for m in prop["anchors"]["mechanism"])
    text = f"{prop['title']}\n\n{prop['statement']}\n\nAnchored in files: {', '.join(prop['anchors']['files'])}\nMechanism:\n{mech}"
    tmpl = open("/verif/tools/agent_prompt_benign.tmpl").read().replace("/tmp/wt3/", root.rstrip("/") + "/")
print(tmpl.replace("__WT__", pid.lower()).replace("__PROP__", text))
