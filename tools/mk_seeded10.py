"""Store the round-10 independent mutants (/tmp/mutants10/<Cxx_A|B>) as /verif/seeded/<Cxx_S|T> with detection results.

Detection is computed with the in-memory overlay runner (zverif.selftest.run_seeded) against ALL 18 checks; only
checks that report a new violation are listed under detected_by (an empty detected_by = not caught, recorded as such).
Re-runnable: `mk_seeded3.py --refresh` recomputes detected_by of the stored E/F entries from /verif/seeded itself.
"""
import json, shutil, sys
from concurrent.futures import ProcessPoolExecutor
from pathlib import Path

sys.path.insert(0, "/verif")
from zverif.selftest import run_seeded  # noqa: E402

NEEDS = {
 "C01_A": ("short-date helpers switched to %y (pivot year 69)", "an item whose modify date has a two-digit year of 69 or more"),
 "C01_B": ("the per-item reset of todo priority / status moved into the branch of _add_note that appends a note", "a todo with a priority and an empty body, followed by a todo without a priority"),
 "C02_A": ("enterDate drops the in_note guard (ids_in_note is stale after an item ends)", "a dated section header directly after a one-word undated item"),
 "C02_B": ("properties merged through ChainMap (first mapping wins)", "the same key defined in two scopes on the path of one note"),
 "C03_A": ("or_filters flattened into one OR over all groups", "two parenthesised groups juxtaposed in one conjunction"),
 "C03_B": ("smart case decided with isupper()", "a quoted text with mixed case and a note spelling it in another case"),
 "C04_A": ("from_date_spec memoised with lru_cache", "one process compiling the same relative spelling on two different days"),
 "C04_B": ("prop key extracted with lstrip('prop:')", "S prop:<key> with a key starting with p, r or o"),
 "C05_A": ("`while next_ch in unsupported` became `if`", "the 40th ZID of one date (0h -> 0j)"),
 "C05_B": ("_update_zo_file addresses lines with splitlines(keepends=True)", "a page holding U+2028 / form feed above a ZID-less note"),
 "C06_A": ("remove_file_by_name skipped for pages missing from the hash map", "a path-restricted reindex, then a plain reindex"),
 "C06_B": ("re-stamp path joins note.body.split()", "a multi-line note already stamped, edited again on a later day"),
 "C07_A": ("forward-only merge of next_ids.json compares suffixes as strings", "the 2,602nd allocation on one date (zz -> 000)"),
 "C07_B": ("priority recognised with re.match('P[0-9]') in _pop_line_before_zid", "a todo whose first word is P2P / P10"),
 "C09_A": ("file label computed with rstrip('.zo')", "a page whose stem ends in o or z, grouped by file"),
 "C09_B": ("property values selected by truthiness of .get()", "a bullet property with an empty value"),
 "C10_A": ("_note_body_has_tag also strips a trailing 's / s", "an inherited tag X and a body tag Xs"),
 "C10_B": ("FileManager caches the lines of each page, writes do not update the cache", "moving a note to its own page"),
 "C11_A": ("re-stamp path joins note.body.split()", "a bulleted note stamped on one day and edited again on a later day"),
 "C11_B": ("'already dated today' read from the old index state", "an interrupted reindex, then a re-run the same day"),
 "C12_A": ("'has a modify date' decided by modify_date != create_date", "a note whose modify date equals its ZID date, edited on a later day"),
 "C12_B": ("hidden metadata spliced after the first word of the body", "moving a note that has a modify date and inherited tags"),
 "C13_A": ("remove_file_by_name skipped for pages without a hash entry", "a reindex killed between a new page's commit and the hash-map write"),
 "C13_B": ("'already dated today' read from the old index state", "a reindex killed after a page's commit, re-run"),
 "C14_A": ("links matched with a regex built from the unescaped page name", "renaming a page whose name contains a dot (every .zot / .zoq)"),
 "C14_B": ("simplify_fname uses Path(fname).stem", "renaming a page in a sub-directory, named with its .zo extension"),
 "C15_A": ("a clause that starts with ( and ends with ) is not parenthesised", "a saved clause of the form (a | b) | (c | d)"),
 "C15_B": ("expanded clause cached per file, validated by that file's mtime only", "a nested saved query edited between two expansions in one process"),
 "C16_A": ("make-style mtime shortcut for the stripped template copy (keyed by basename)", "two templates with the same file name in different directories, used in one process"),
 "C16_B": ("note move passes should_overwrite_existing=True behind a cwd-relative existence check", "note move onto an existing page named relatively, outside the notes directory"),
 "C17_A": ("words stripped with rstrip('),.?!;:').lstrip('(')", "a target directly preceded by ! ? , . ; : or )"),
 "C17_B": ("an ID owned by several notes is refused whatever their pages", "an ID owned by two notes of one page"),
 "C18_A": ("cycle guard with a shared, never-popped visited set", "the same group referenced twice under one top-level argument"),
 "C18_B": ("ordinary path arguments are run through str.format like group members", "a path argument containing braces"),
 "C08_A": ("the error collector is attached on the quiet path only (indentation slip)", "a broken page compiled verbosely (`zorg -v db reindex`)"),
 "C08_B": ("whitelist membership became a substring test against the whole whitelist text", "a newly broken page whose path is part of a whitelisted path"),
}
ALL = [f"C{i:02d}" for i in range(1, 19)]
LET = {"A": "S", "B": "T"}
out = Path("/verif/seeded")


def detect(patch: Path, pid: str) -> dict:
    jobs = [(f"{patch.parent.name}@{c}", c, str(patch), "/repo") for c in ALL]
    with ProcessPoolExecutor(max_workers=16) as ex:
        rs = list(ex.map(run_seeded, jobs))
    det = {}
    for c, r in zip(ALL, rs):
        if r["status"] == "ok":
            det[c] = dict(violation=True, rules=r["rules"])
    return det


def main() -> None:
    refresh = "--refresh" in sys.argv
    only = {a for a in sys.argv[1:] if not a.startswith("-")}
    if refresh:
        for tgt in sorted(out.glob("C??_[ST]")):
            if only and tgt.name not in only:
                continue
            meta = json.loads((tgt / "meta.json").read_text())
            meta["detected_by"] = detect(tgt / "patch.diff", meta["breaks_property"])
            (tgt / "meta.json").write_text(json.dumps(meta, indent=1) + "\n")
            print(tgt.name, sorted(meta["detected_by"]), flush=True)
        return
    for d in sorted(Path("/tmp/mutants10").glob("C??_?")):
        mid = d.name
        pid, letter = mid.split("_")
        new_id = f"{pid}_{LET[letter]}"
        if only and mid not in only and new_id not in only:
            continue
        if not (d / "confirm.json").exists():
            print("skip (not confirmed)", mid)
            continue
        tgt = out / new_id
        tgt.mkdir(parents=True, exist_ok=True)
        shutil.copy(d / "patch.diff", tgt / "patch.diff")
        shutil.copy(d / "demo.py", tgt / "demo.py")
        conf = json.loads((d / "confirm.json").read_text())
        what, needs = NEEDS[mid]
        meta = dict(id=new_id, round=10, breaks_property=pid, change=what, needs_to_manifest=needs, source="independent sub-agent given only the property text and a scratch worktree",
                    confirmed=dict(repo_head=conf["head"], patch_applies=conf["applies"], suite_with_change=conf["suite_with_mutant"], demo_exit_clean=conf["demo_clean_rc"], demo_exit_with_change=conf["demo_mutant_rc"],
                                   how="scratch worktree of /repo HEAD, `PYTHONPATH=<wt>/src /venv/bin/python demo.py` before and after `git apply patch.diff`, then the pinned pytest suite with the change"),
                    detected_by=detect(tgt / "patch.diff", pid))
        (tgt / "meta.json").write_text(json.dumps(meta, indent=1) + "\n")
        print(new_id, sorted(meta["detected_by"]), flush=True)


if __name__ == "__main__":
    main()
