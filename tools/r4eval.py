"""Evaluate round-N artefacts: tools/r4eval.py [--seeded GH] [--benign FGH] [PID...] (letters select seeded/benign suffixes)."""
import sys, json
sys.path.insert(0,'/verif')
from pathlib import Path
from concurrent.futures import ProcessPoolExecutor
from zverif.selftest import run_seeded, run_benign
ALL=[f"C{i:02d}" for i in range(1,19)]
args=sys.argv[1:]
def opt(name, default):
    if name in args:
        i=args.index(name); v=args[i+1]; del args[i:i+2]; return v
    return default
sl=opt('--seeded','GH'); bl=opt('--benign','FGH'); verbose='-v' in args
pids=[p.upper() for p in args if not p.startswith('-')] or ALL
jobs_s=[]; jobs_b=[]
for pid in pids:
    for x in sl:
        p=Path(f"/verif/seeded/{pid}_{x}/patch.diff")
        if p.exists(): jobs_s.append((f"s/{pid}_{x}@{pid}", pid, str(p), "/repo"))
    for x in bl:
        b=Path(f"/verif/benign/{pid}_{x}.diff")
        if b.exists():
            for q in ALL: jobs_b.append((f"b/{pid}_{x}@{q}", q, str(b), "/repo"))
with ProcessPoolExecutor(max_workers=16) as ex:
    rs=list(ex.map(run_seeded, jobs_s)); rb=list(ex.map(run_benign, jobs_b))
for r in rs:
    if r['status']!='ok' or verbose:
        print(f"{r['id']:16} {'DETECTED' if r['status']=='ok' else 'MISSED  '} rules={r.get('rules')} undecided={r.get('undecided')} {r.get('first') or r.get('why','')}"[:260])
bad=[r for r in rb if r['status']!='ok']
for r in bad:
    print(f"{r['id']:16} {r['status']:9} rules={r.get('rules')} undecided={r.get('undecided')} {r.get('first') or r.get('why','')}"[:300])
print(f"mutants {sum(r['status']=='ok' for r in rs)}/{len(rs)} detected; benign runs {len(rb)-len(bad)}/{len(rb)} silent")
