#!/venv/bin/python
"""Regenerates /verif/MANIFEST.json from the table below (kept next to the checks)."""

import json
from pathlib import Path

VERIF = Path(__file__).resolve().parent.parent

# pid -> (technique, what the check decides, what it does not decide / trusted base, design ref)
CHECKS = {
    "C18": (
        "AST dataflow rule (list-homomorphism shape) + constant interval evaluation",
        "Static proof obligations on expand_file_group_paths/_paths_from_file_group: the result list is filled only by "
        "append/extend inside one loop over the input in input order, nothing else survives an iteration (no carried or "
        "threaded state, no module-level memo), '@' members recurse through the same map and the marker strip matches "
        "the marker, and the date window is the local today minus 0..6 days with yyyymmdd derived from the same dates. "
        "These are necessary conditions of in-place, in-order, concatenation-distributive expansion; they hold for every "
        "input because they are facts about every path of the two functions, which tests sampling a few maps cannot show.",
        "Decides the structural clauses only, not rendered path strings; assumes str.format semantics and acyclic maps "
        "(as the property states).",
        "DESIGN.md section 4, C18",
    ),
}

CHECKS["C07"] = (
    "abstract interpretation of the allocator over character sets (alphabet fixpoint, symbolic-prefix successor shapes), "
    "lexer-ATN product automaton inclusion, path rule for persist-before-return",
    "Proof obligations decided from source: (R1) the least fixed point of characters _get_next_id can emit is inside ZID_CHAR of both "
    "lexer ATNs, disjoint from the excluded look-alikes, and has the size giving 135,252 suffixes; (R2) on every (prefix, pivot, trailing-max) "
    "shape the successor keeps the symbolic prefix, moves the pivot to its immediate successor and pads with the minimum, the only length change "
    "is 2->3 and the only raise is at max^3, hence the chain is strictly increasing and visits every suffix; (R3) every return of get_next is "
    "preceded by a next_ids.json write of the advanced map and no cached copy can shadow the file; (R4) every YYMMDD#A{2,3} is exactly one ZID token "
    "in both lexers (automaton inclusion) and is accepted by is_zid (abstract evaluation over character-class strings); (R5) who calls what. "
    "Exhaustive over the finite domains, which a test that allocates one ID cannot be.",
    "Uniqueness follows from R2+R3 for a single process (the statement excludes concurrency). Trusts ANTLR longest-match/first-rule lexing, "
    "strftime printing real dates. Known finding: the last suffix 'zzz' is never handed out.",
    "DESIGN.md section 4, C07",
)

NOT_YET = {
}

NOT_APPLICABLE: dict[str, str] = {}


def main() -> None:
    props = [json.loads(l) for l in (VERIF / "properties.jsonl").read_text().splitlines() if l.strip()]
    checks = []
    na = []
    for p in props:
        pid = p["id"]
        if pid in CHECKS:
            tech, text, note, ref = CHECKS[pid]
            checks.append(
                {
                    "property_id": pid,
                    "quick_cmd": f"/venv/bin/python -m zverif.run {pid} --tier quick",
                    "thorough_cmd": f"/venv/bin/python -m zverif.run {pid} --tier thorough",
                    "evidence_file": f"/verif/evidence/{pid}.json",
                    "replay_cmd_template": f"/venv/bin/python -m zverif.run {pid} --tier quick --replay {{path}}",
                    "engine": "zverif",
                    "level_claimed": {"category": "other", "text": text, "design_ref": ref},
                    "level_note": note,
                    "technique": "static analysis: " + tech,
                }
            )
        else:
            na.append({"property_id": pid, "reason": NOT_APPLICABLE.get(pid) or NOT_YET.get(pid) or "static check for this property is not built yet (work in progress); nothing is claimed"})
    manifest = {
        "version": 1,
        "setup_cmd": "/venv/bin/python -c \"import antlr4, ast; print('zverif needs no build step')\"",
        "hooks": {
            "guard": "ZORG_VERIF",
            "enable": "none: static analysis reads the source tree; no hooks or instrumentation exist in /repo",
            "baseline_off_cmd": "cd /repo && /venv/bin/python -m pytest -ra -q -p no:cacheprovider --timeout=900 --continue-on-collection-errors",
            "source_commits": [],
            "add_only": True,
        },
        "engines": [
            {
                "name": "zverif",
                "path": "/verif/zverif",
                "serves_properties": sorted(CHECKS),
                "kind_free_text": "repository-specific static analysis in Python (ast-based py-model with annotation types and call graph, "
                "structured path enumeration, string-shape domain, table agreement, ATN-derived grammar/lexer automata, abstract "
                "interpretation of listener handlers over the grammar); never imports or runs zorg",
            }
        ],
        "checks": checks,
        "not_applicable": na,
        "notes": "Exit codes: 0 = every obligation proved (or refuted only by entries of known_findings.json, printed as KNOWN-FINDING); "
        "1 = VIOLATION (new refutation); 2 = ANALYSIS-ERROR (vanished anchor / unrecognised shape / instance floor) - never a silent pass. "
        "Genuine defects repaired in /repo are the 'fix:' commits listed in known_findings.json with status fixed.",
    }
    (VERIF / "MANIFEST.json").write_text(json.dumps(manifest, indent=1) + "\n")
    print(f"MANIFEST.json: {len(checks)} checks, {len(na)} not_applicable")


if __name__ == "__main__":
    main()
