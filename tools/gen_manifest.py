#!/venv/bin/python
"""Regenerates /verif/MANIFEST.json from the table below (kept next to the checks)."""

import json
from pathlib import Path

VERIF = Path(__file__).resolve().parent.parent

# pid -> (technique, what the check decides, what it does not decide / trusted base, design ref)
CHECKS = {
    "C18": (
        "AST dataflow rule (list-homomorphism shape) + constant interval evaluation",
        "Static proof obligations on expand_file_group_paths/_paths_from_file_group: the result list is filled only by "
        "append/extend inside one loop over the input in input order, nothing else survives an iteration (no carried or "
        "threaded state, no module-level memo), '@' members recurse through the same map and the marker strip matches "
        "the marker, and the date window is the local today minus 0..6 days with yyyymmdd derived from the same dates. "
        "These are necessary conditions of in-place, in-order, concatenation-distributive expansion; they hold for every "
        "input because they are facts about every path of the two functions, which tests sampling a few maps cannot show.",
        "Decides the structural clauses only, not rendered path strings; assumes str.format semantics and acyclic maps "
        "(as the property states).",
        "DESIGN.md section 4, C18",
    ),
}

CHECKS["C07"] = (
    "abstract interpretation of the allocator over character sets (alphabet fixpoint, symbolic-prefix successor shapes), "
    "lexer-ATN product automaton inclusion, path rule for persist-before-return",
    "Proof obligations decided from source: (R1) the least fixed point of characters _get_next_id can emit is inside ZID_CHAR of both "
    "lexer ATNs, disjoint from the excluded look-alikes, and has the size giving 135,252 suffixes; (R2) on every (prefix, pivot, trailing-max) "
    "shape the successor keeps the symbolic prefix, moves the pivot to its immediate successor and pads with the minimum, the only length change "
    "is 2->3 and the only raise is at max^3, hence the chain is strictly increasing and visits every suffix; (R3) every return of get_next is "
    "preceded by a next_ids.json write of the advanced map and no cached copy can shadow the file; (R4) every YYMMDD#A{2,3} is exactly one ZID token "
    "in both lexers (automaton inclusion) and is accepted by is_zid (abstract evaluation over character-class strings); (R5) who calls what. "
    "Exhaustive over the finite domains, which a test that allocates one ID cannot be.",
    "Uniqueness follows from R2+R3 for a single process (the statement excludes concurrency). Trusts ANTLR longest-match/first-rule lexing, "
    "strftime printing real dates. Known finding: the last suffix 'zzz' is never handed out.",
    "DESIGN.md section 4, C07",
)

CHECKS["C14"] = (
    "string-shape analysis of replacement keys/values, table rule on the glob set, path-order rule",
    "Decides the structural clauses of link retargeting: every str.replace key is '[[' + source-name + a non-empty link delimiter, both "
    "delimiters (']' and '#') are covered, each value mirrors its key with the destination name derived by the same transforms, names are "
    "derived by exact suffix removal (no strip()-as-suffix), a page name is never interpolated into a regex unescaped, the rewrite loop "
    "visits exactly *.zo/*.zot/*.zoq recursively and rewrites each file from its own content, and the rename precedes the rewrites. "
    "These hold for all (A, B) pairs and directory contents because they are facts about the code's shapes, not about sampled names.",
    "Does not decide byte-level results (newline translation by read_text/write_text is outside). A regex-based rewrite is decided by the concrete-page runs (and the missing-re.escape rule).",
    "DESIGN.md section 4, C14",
)
CHECKS["C15"] = (
    "abstract interpretation of expand_saved_queries over virtual saved-query pages (text scenarios, exhaustive over the printable characters of a reference name, reads in the effect trace), None-check path rule at the callers, no-memoisation rule",
    "Decides: (R1) on every path that returns a saved clause or substitutes it for {name}, the text is parenthesised unless the path "
    "excludes a '|' in it, for every valuation of the other branch atoms; (R2) every result of the two expansion functions is tested for "
    "None before any use and the None branch ends in an error; (R3) nested names are expanded through the same function; (R4) the clause is "
    "read from the .zoq file on each call and no module-level cache or memoiser is consulted. Quantifies over all saved-query sets because "
    "the obligations are per path, not per input.",
    "Does not evaluate result sets or termination on cyclic sets (excluded by the statement). Trusts the query grammar's subfilter rule.",
    "DESIGN.md section 4, C15",
)
CHECKS["C16"] = (
    "path enumeration with truth-table (decision) evaluation over exists/overwrite atoms (no-clobber, all valuations), abstract interpretation of init_from_template with opaque patterns and a recorded renderer (first match wins, no match no write), who-may-call rule",
    "Decides: (R1) for every path of init_from_template that reaches a write of the target there is no valuation of the branch atoms with "
    "exists(target)=T and overwrite=F (local boolean definitions are expanded, unknown atoms are free), and the tested path is the written "
    "path; (R2) patterns are tried in configuration order and the loop leaves at the first match; (R3) every writing path matched a pattern "
    "or was given a template; (R4) only configuration-fed call sites may pass the overwrite flag (4 call sites); (R5) the date-like capture "
    "regex and strptime format agree; (R6) the stripped template copy is rebuilt on every path before it is rendered and no module-level "
    "cache is consulted. Idempotence follows from R1.",
    "Rendered bytes are jinja2's; not decided. Trusts Path.exists/write_text semantics.",
    "DESIGN.md section 4, C16",
)

CHECKS["C01"] = (
    "listener typestate: abstract interpretation of ZorgFileCompiler's enter/exit methods along the ZorgFile ATN with provenance labels; grammar rule-graph and shadowed-alternative tests; table agreement",
    "Decides, for every walker event sequence the (non-recursive, hence regular) file grammar admits: Note is constructed only while leaving base_note/base_todo, at "
    "most once per item (R2); the todo_prefix token <-> enterTodo_prefix <-> NoteType table is a bijection, checked by interpreting the handler per literal (R3); at every "
    "abstract note construction the kind, priority, ZID, modify date, line number and body carry only provenance of the current item or the constant default - a value of "
    "a closed item/section surviving in the listener state is reported with the field and scope (R4); look-alike words: todo_prefix is unreachable in bodies, the priority "
    "alternative of unquoted_word is shadowed by id_group, ids from the third on (second without modify date) write nothing, every id advances the position counter (R5); "
    "every override names a real listener method (R1).",
    "Over-approximates the grammar (all alternatives but proven-shadowed ones feasible); does not decide file order of notes, verbatim bodies, or the today() fallback. "
    "Trusts the ParseTreeWalker contract and ANTLR's lowest-alternative ambiguity resolution.",
    "DESIGN.md section 4, C01",
)
CHECKS["C02"] = (
    "listener typestate over the ATN with scope-closing provenance labels (may-analysis with trace partitioning), exhaustive decision evaluation of the precedence properties",
    "Decides: (R2) at each of the abstract note constructions under every legal section stack, tags/links/properties/create_date carry only labels of the title line, "
    "header block (properties only), OPEN enclosing sections and the item - labels of closed sections/items, in-block comments, later header lines (tags) and quoted "
    "properties never appear; (R3) conversely every open scope reaches every kind under the right keyword on some path (necessary for completeness) and each tag list only "
    "receives its own kind; (R4) create_date and same-key properties resolve to the innermost non-empty scope on all 64 emptiness patterns, by interpreting the two "
    "properties of the state class; (R5) every storing path of _add_tag carries the fact 'not digits-only'.",
    "String equality / de-duplication of values is not modelled. Same trusted base as C01.",
    "DESIGN.md section 4, C02",
)
CHECKS["C09"] = (
    "AST dataflow rules (groupby-over-sorted-by-same-key), abstract interpretation of the enum keyfunc/selector/header dispatch per member, format-spec rule for integer keys, lexer-literal table",
    "Decides: groupby runs only over notes sorted by the identical key and groups are stored once (R1); every ORDER BY key embeds dates as %Y%m%d and integers with fixed-width "
    "zero padding, and the composite key joins all component keys positionally without filtering (R2); keyfunc/_get_selector/_get_header are total over their enums/levels and "
    "pair each member with the right note field and sigil - evaluated by interpreting them per member (R3); header markers equal the H1..H4_HEADER token literals and headers are "
    "omitted only for empty labels (R4); count(x) is len() of exactly selector-of-x(group) (R5); file labels remove exactly '.zo' (R6).",
    "Does not evaluate rendered output over index contents. Known finding: the `none` ordering embeds the unpadded line number (pinned by existing snapshots).",
    "DESIGN.md section 4, C09",
)
CHECKS["C10"] = (
    "abstract interpretation of _move_note end to end over virtual page layouts (conservation, locator, write order, failure modes, hidden-metadata splice), table agreement of tag sigils with the grammar, effect rule on the two file operations",
    "Decides: in lines[:s] + note + lines[e:] every path has e == s or (e == s+1 and lines[s] shown blank on that path) (R1); the predicate locating the source line pins the ZID "
    "to the own-ZID position and never uses substring containment (R2); item-prefix tuples equal NoteType values + ' ' and the tag sigils of the hidden-metadata helpers agree "
    "with each other and with the grammar's token literals, all four kinds plus properties covered (R3); add precedes delete, failures give a non-zero status, both file operations "
    "write the page themselves on every successful path (no staged writes), _to_done_note changes only the payload (R4); inherited metadata is spliced in at the note's own ZID (R5).",
    "Arbitrary page layouts beyond R1/R2 and value-level recompilation equality are not decided.",
    "DESIGN.md section 4, C10",
)
CHECKS["C17"] = (
    "effect catalogue over the call-graph slice of run_action_open with string-shape analysis of every stdout print; marker/strip-set table agreement; index arithmetic rules",
    "Decides: every stdout effect reachable from run_action_open (through swog, the repo, sessions, templates) prints a string whose first piece is a constant "
    "starting with EDIT/SEARCH/PROMPT/ECHO (R1); the link markers of the word scan equal those _open_link dispatches, and stripped punctuation is disjoint from kind prefixes "
    "and brackets (R2); one target opens directly, option k selects element k-1, -1 the last, PROMPT lists targets in scan order (R3); 'several pages' is decided on distinct pages (R4).",
    "The primary-ZID heuristic over all lines, what the index resolves, and child-process output are not decided. Known finding: -vvv enables SQLAlchemy echo on stdout.",
    "DESIGN.md section 4, C17",
)

CHECKS["C03"] = (
    "symbolic evaluation of the SQL-building helpers (abstract interpreter with library calls as uninterpreted terms), term-structure comparison, string-shape analysis of LIKE patterns, registry coverage table",
    "Decides from source, for symbolic filters: every WhereAndFilter field is translated by exactly one registered helper and the registry is iterated (R1); the SQL term each helper "
    "builds has the stated connective structure and column/model/operator pairing - OR over kinds (plain note = IS NULL, never an IN list), priorities, alternatives and link forms "
    "(name, name#%, global:ID, ref:RID, zid: of every note of the page, each independently), AND elsewhere, inclusive date bounds with end := start (R2); the negated form of tag, text, "
    "file, link and existence filters equals the positive form with only the outermost membership/LIKE operator negated, and negated comparisons use the complementary operator under "
    "`in_` (R3); every LIKE pattern fed by query text escapes backslash, % and _ and passes escape= (R4); DATE/INTEGER/STRING cast tables (R5). A wrong operator, column, connective "
    "or a both-sides negation changes the term and is reported with the term.",
    "SQL evaluation over index contents and SQLAlchemy itself are trusted, not modelled.",
    "DESIGN.md section 4, C03",
)
CHECKS["C04"] = (
    "abstract interpretation of the query listener per grammar alternative over token-shaped abstract strings; exhaustive enumeration of the finite spellings; bounded exploration of parenthesis nestings (listener stack typestate); ATN derivability",
    "Decides: each where_atom / kind character / group / order / select alternative of the ATN reaches the filter field or enum member it denotes (handlers interpreted per alternative) (R1); "
    "all 100 spellings Pn / Pn-m denote [n..m] (R2); the short/long/relative date recognisers partition the spec shapes, the unit table d/m/y, sign handling and end=None for tail-less ranges (R3); "
    "property operator prefix table, value-type inference order, negation bit (R4); over every derivation with up to three levels of parentheses the compiled filter tree equals the derivation's "
    "nesting (R5); O/G in either order (R6); `prop:<key>` keeps the key, no strip()-as-prefix (R7).",
    "Identifier texts are abstracted as fixed-length strings over character classes; nesting is explored to depth 3 (stated bound). No renderer exists, so the round trip is not decided.",
    "DESIGN.md section 4, C04",
)
CHECKS["C05"] = (
    "table agreement over the converter classes, path/dominance rules, affine evaluation of the splice bounds, effect-order rule, allocator alphabet inclusion",
    "Decides: every field of the domain Note is written to the SQL model and restored from the same column, section/block converters map every child collection both ways (R1); ZIDs are "
    "assigned before conversion, every ZID-less note gets one and is queued, index body and file line drop a leading word under the same recogniser, every allocatable ZID lexes as a ZID (R2); "
    "the write-back splice is lines[:s]+X+lines[e:] with s = line_no-1, e-s = number of '\\n' lines of the body, only X[0] changes, split/joined on '\\n' only (R3); message wiring and "
    "page-write-then-hash-refresh (R4).",
    "Where in the line the ZID lands and byte-level diffs are value-level (not decided).",
    "DESIGN.md section 4, C05",
)
CHECKS["C06"] = (
    "decision-table evaluation of the change test, path-order rules, dataflow rule on what reaches removal, provenance rule on hash-map writes",
    "Decides necessary conditions of incremental == rebuild: the change test is exactly (missing or differs) with safe evaluation order (R1); per page remove < add < commit and removal deletes "
    "notes, sections, blocks and the page row (R2); names of the old map that are gone from disk must reach removal (R3, known finding); every hash-map write acknowledges only pages this "
    "command examined (R4, known finding in the write-back); what is stored for a new note matches what a fresh compile would store (R5).",
    "Equality of index contents over edit histories is not decided.",
    "DESIGN.md section 4, C06",
)
CHECKS["C08"] = (
    "listener typestate (no handler raises on any error-free tree), path-sensitive non-emptiness/length facts for every index/pop/unpack site in the call-graph slice, guard-discharge rule for strptime, decision tables for the refusal conditions",
    "Decides: no listener method raises on any event sequence of the grammar (typestate walk over the ATN: asserts, assert_never, None accessors, children indices) and every local index/pop/unpack "
    "in the slice reachable from walk_zorg_page is dominated by a non-emptiness/length fact or is in the reviewed table; strptime is only reached behind a recogniser that itself try-parses; "
    "listener failures on error-recovery trees are fenced (R1); no while loop or recursion in the slice (R2); honest flag (R3, known finding pinned by the test data); create/reindex refuse "
    "exactly has_errors and not whitelisted (and not --update) before committing (R4); parse precedes walk, no note with errors, every reported error recorded (R5).",
    "Totality of the ANTLR runtime and lexer-level errors are outside.",
    "DESIGN.md section 4, C08",
)
CHECKS["C11"] = (
    "truth-table evaluation of the stamping condition, field-set rule on Note.__eq__, affine splice rule, effect order, split/join and clock-source agreement rules",
    "Decides: the stamping site is reached exactly under had-this-ZID-before and changed and not dated-today (all 8 valuations), old notes matched by ZID (R1); Note.__eq__ compares exactly "
    "body and todo_payload (R2); write-back conservation (R3); page write followed by hash refresh (R4); event queued iff stamped and wired to the page write (R5); the re-stamped index body "
    "keeps the line structure (R6); index side and file side read the same local clock (R7).",
    "Histories over several days are value-level; not decided.",
    "DESIGN.md section 4, C11",
)
CHECKS["C12"] = (
    "abstract interpretation of Note.to_string per NoteType member and of the compiler's prefix handler per token literal; lexer+ATN derivability of the emitted skeleton; symbolic word-list evaluation of the property scan",
    "Decides: the kind character emitted equals NoteType.value and compiles back to the same member (R1); a priority is emitted for every not-done todo kind (R2); the piece sequence "
    "kind [' 'Pn] ' ' body NL lexes and derives from the item rule (R3); query results and moved notes render only through to_string (R4); the refreshed .zoq page must end its last item "
    "with NL (R5, known finding pinned by a test); the headline/bullet property scan skips an optional modify date and an optional ZID, evaluated on all prefix shapes of symbolic words (R6).",
    "The value-level round trip of arbitrary bodies is not decided (e.g. `x P2 P1 foo`).",
    "DESIGN.md section 4, C12",
)
CHECKS["C13"] = (
    "effect-order analysis over the handlers with parameter-sensitive may-effect summaries; effect-catalogue exhaustiveness rule",
    "Decides necessary conditions of crash convergence: a ZID is on disk before it is returned (R1); no hash-map write covering a page precedes that page's commit (R2); a command that "
    "skips work by hash must not acknowledge pages whose write-back events are still queued (R3, known finding); write-back = page write then hash refresh with no other external effect, "
    "in particular no glob-visible temporary file (R4); sessions roll back on exit and commits occur only at the enumerated sites (R5).",
    "Torn writes and actual recovery runs are not decided; these are ordering obligations on every path.",
    "DESIGN.md section 4, C13",
)

NOT_YET = {
}

NOT_APPLICABLE: dict[str, str] = {}


# how the decisions are reached after the benign-refactor round (DESIGN.md 9.7): abstract runs over generic scenarios
METHOD = (" Since the behaviour-preserving-refactor round, the clauses that used to be matched on the shape of one function are decided by abstract interpretation of the operation's own source "
          "(helpers folded in or followed interprocedurally) over generic scenarios: names, hashes, dates and file contents are opaque markers / uninterpreted library terms, the verdict is read off "
          "the resulting effect trace or value, and anything the interpreter cannot model is reported as undecided (exit 2), never as a pass.")

# rules added after the two rounds of independent seeded changes (see DESIGN.md, detection table)
ADDENDA = {
    "C01": " Added: the century rule (no %y in any parsing format of zorg.shared.dates, the short-date parser feeds %Y with a constant '20'), and the id-word rule is now decided on "
           "scenarios built from the listener's own methods (enterItem, enterBase_note, enterId per word with distinct provenance labels and uninterpreted recogniser answers), so it does not depend on field names.",
    "C03": " Added (R6): the obligations C04.R1/R4 about what the query compiler hands the converter (negation bit, operator, case flag, value as written for tag / property / text / file / link atoms) are adopted, "
           "because the statement starts from the query text.",
    "C04": " Added: century rule for date atoms (R3) and the text-filter prefix table [!][c]'..' / \"..\" evaluated on abstract parse-tree contexts that answer the generated accessors (R4).",
    "C05": " Added (R1): the section-less part of a page is stored whenever it exists (the only admissible condition on h0 is its presence) and no converter loop or comprehension filters, skips or slices a child collection; "
           "(R2) the allocator's alphabet is inside the lexer's ZID_CHAR.",
    "C06": " Added (R4): the hash map written inside the per-page loop is the committed map, never the examined one, and every recorded hash comes from hashing the file.",
    "C07": " Added: (R3) _write_to_disk dumps the map it is given, unfiltered; (R4) the date recogniser decides by attempting the parse it guards, and a regex-based is_zid must admit both suffix lengths (regex width from the regex AST).",
    "C08": " Added (R4): hash-acknowledgement obligations shared with C13 (no whole-map write inside the per-page loop); the is_zid obligation is now 'True only if is_short_date_spec accepted the date part' over all return paths.",
    "C09": " Added (R4): the section label of a note under H1>H2>H3>H4 is the non-empty titles joined by the separator, evaluated abstractly for both an H1-less page and a titled H1 at every depth.",
    "C10": " Added: (R5) typestate over the paths of _move_note - whatever reaches add_note has passed through _add_hidden_metadata; (R6) the renderer obligations C12.R1-R3 are adopted (the moved text is Note.to_string()).",
    "C12": " Added: (R7) the header kept by a .zoq refresh is the leading run of header lines (takewhile / break), never a filter over the old page; (R8) the allocator's alphabet is inside ZID_CHAR.",
    "C13": " Added (R6): remove-then-add is unconditional for a changed page (not skipped for pages missing from the hash map), the hash map is only read for change detection, every recorded hash is _hash_file(path) and the write never merges the on-disk map back in.",
    "C14": " Added (R2): get_all_zfiles hands on every file the three recursive globs found (no filter / slice / conditional yield).",
    "C15": " Added (R5): the reference pattern is '{' (any non-brace)* '}' - decided on the regex AST - so no spelling of {name} stays unexpanded and unreported.",
    "C16": " Added (R5): a strptime that is not dominated by an 8-digit recogniser is refuted (strptime's %m/%d accept one digit).",
    "C17": " Added: (R5) every allocatable ZID is in the language of is_zid; (R4) now applies to any 'more than one' refusal in _open_global_link regardless of variable names.",
    "C18": " Added (R2): the function that reads the clock may be a helper of the same module (result names are related through the returned tuple) and neither it nor its callers may be memoised.",
}

# what rounds 3 and 4 of independent changes / refactors replaced or added (DESIGN.md 9.8, 9.9): the shape rules named in the base text above for these clauses are
# now decided by interpreting the operation from its entry point over virtual files / objects
ROUND34 = {
    "C01": " Rounds 3-4: Page.notes is evaluated on a page with unevenly nested sections (file order, depth first, each note once); ctx annotations may be wrapped (Optional[...]).",
    "C02": " Rounds 3-4: a concrete page (same tag / property value and dates at several scopes, dated headers right after one-word items) is driven through the listener in ParseTreeWalker order; "
           "every note must carry exactly the values of the title line, its open sections and itself (value equality is not visible to the provenance-label walk).",
    "C03": " Rounds 3-4: which helpers to_sql_where invokes (whatever holds the registry) and that all clauses end under the AND is decided by an abstract run with the helpers replaced by marker clauses.",
    "C05": " Rounds 3-4: write-back conservation is decided by abstract runs of _update_zo_file over virtual pages (adjacent multi-line notes, U+2028 / form feed / CR, first and last line); "
           "index body vs file line is compared for plain notes and todos with and without priority, incl. priority look-alike first words (this found and repaired c489f53).",
    "C07": " Rounds 3-4: persistence scenarios keep older and newer dates in next_ids.json (date arithmetic on constants as library facts).",
    "C08": " Rounds 3-4: (R5) typestate of the parser's listener set - on every path the ErrorManager is still registered when parser.prog() starts.",
    "C09": " Rounds 3-4: partition, order, every selector, count and property values are decided through execute_with_session on scenario notes (equal labels not adjacent, empty labels, "
           "a section title that extends another one, an empty selection), independent of the data structure that carries the groups.",
    "C10": " Rounds 3-4: conservation and the locator are decided by abstract runs of _move_note end to end over 29 virtual page layouts with files read back as written "
           "(same page, destination created from its template, every ending of the destination, every item kind among look-alike lines, U+2028).",
    "C11": " Rounds 3-4: Note.__eq__ is evaluated on 16 pairs of notes (one field differing; closed / cancelled todos differing only in priority; blanks); write-back conservation as C05.",
    "C12": " Rounds 3-4: the refresh is run abstractly over four virtual saved-query pages (header = leading comment run, one stats line, fresh results only, final newline); a multi-line note "
           "with a whitespace-only continuation line is rendered through the query path unchanged.",
    "C14": " Rounds 3-4: the rename is additionally run on concrete virtual pages with look-alike links ([[Ax]], [[A/sub]], [[A.zot]], [[A-y]] ...), which also decides regex-based rewrites (re on constants is a library fact).",
    "C15": " Rounds 3-4: expansion scenarios include a diamond of saved queries and a repeated reference; an internal exception on a valid query set is a violation.",
    "C16": " Rounds 3-4: first-match-wins / no-match-no-write / no-clobber are decided by abstract runs of init_from_template with opaque pattern objects and a recorded renderer.",
    "C17": " Rounds 3-4: target collection, option arithmetic (option k answers exactly what a line holding only the k-th target answers), target kinds, .zoq pages, query lines and "
           "ID links over one / two pages are decided by abstract runs of run_action_open over a virtual page.",
}


# what the end of round 4 (refactors) and round 5 replaced or added (DESIGN.md 9.9)
ROUND5 = {
    "C03": " Round 5: text literals that begin / end with the other quote character or blanks; a helper registry written as a literal is evaluated like any constant; a failing check whose abstract run left the modelled subset is undecided, not a violation.",
    "C04": " Round 5: (R4) 1_000 / 0x10 / 1e3-shaped property values are strings, quote-edge text literals; (R3) no function from which a clock read is reachable is memoised.",
    "C05": " Round 5: (R2) redundant blanks behind the item prefix and date-only first lines (found and repaired 5c2de1e), the line rewrite is reached through the registered event handlers; (R3) conservation through both handlers, expectation per line metamorphic; (R5) the abstract reindex runs of C06.R1/R2 are adopted (a re-run changes no indexed note).",
    "C07": " Round 5: the excluded look-alikes are a frozen table; the manager is built by interpreting its own __init__; infinite iterators (itertools.count) are modelled as truncated prefixes.",
    "C08": " Round 5: strptime sites = calls to any zorg.shared.dates function that lets a strptime ValueError escape; fence / flag rules on the flattened walk_zorg_page; length guards from chained comparisons.",
    "C09": " Round 5: the composite ORDER BY key (every component, positional, empty components included) is decided by multi-component scenarios instead of the shape of _order_by_keyfunc.",
    "C10": " Round 5: add-before-delete and the two failure modes are decided by abstract runs of _move_note (write order in the trace, non-zero status, nothing removed); the comparison of add_note's prefix tuple with NoteType was REMOVED as over-demanding (it only moves the insertion point).",
    "C11": " Round 5: the stamp table's days are ordered markers (a note dated on a later day is a valuation) and includes 'stamped in the index only' (interrupted write-back; found and repaired ee7d121).",
    "C12": " Round 5: (R4) todos of every kind through the query path come out in Note.to_string form; (R9) C10.R5's evaluation of the move splice is adopted.",
    "C13": " Round 5: (R7) the stamp-table obligations incl. the index-only-stamp valuations are adopted (re-run after a kill between commit and write-back).",
    "C14": " Round 5: regex use is detected over the whole rename slice; replacement functions of re.sub/subn are interpreted per match.",
    "C15": " Round 5: R1/R3/R5 are decided through expand_saved_queries only (text scenarios; every printable ASCII character inside a reference name must make a missing reference fail; every saved query the result depends on is read in the trace of that call); the shape rules were removed.",
    "C16": " Round 5: (R3) is decided by the scenarios only.",
    "C17": " Round 5: comment and continuation lines (no primary ZID) holding one / two ZIDs.",
}


# round 6 (changes away from the obvious function) and refactor round 5 (DESIGN.md 9.10)
ROUND6 = {
    "C01": " Round 6: Page.notes is evaluated for four shapes of the part in front of the first H1 (an H2 as the very first thing of the page included).",
    "C02": " Round 6: the concrete scope scenario has items without any identifier (bare URLs) in front of dated headers and demands duplicate-free tag lists.",
    "C04": " Round 6: which reading of a date spec is taken is read off the format handed to strptime (helper names are free).",
    "C05": " Round 6: (R5) `db reindex <page>` is also entered through its CLI runner (the command the runner builds must spell the page as the notes directory is spelled).",
    "C06": " Round 6: file_hash.json is never written while pages remain to be processed; a refused run records no page at all; the restricted reindex is also entered through run_db_reindex.",
    "C07": " Round 6: (R3) neither `db create` nor `db reindex` may unlink / rewrite next_ids.json (the data directory lists its files to the abstract run); (R6) the write-back conservation runs are adopted; an internal exception of a write-back handler on a concrete page is a violation.",
    "C08": " Round 6: (R6) the tag lists handed to the index are duplicate-free (C02's scope scenario adopted): a duplicate aborts `db create` on a valid page; the strptime recogniser may call any raiser of zorg.shared.dates; length guards through module constants.",
    "C13": " Round 6: no hash-map write inside the page loop; the counter file is untouched by the command handlers; unlink+rename replacement of next_ids.json is refuted by the persistence scenarios.",
    "C14": " Round 6: concrete renames of a template (.zot) and of a saved-query page (.zoq) next to a page of the same base name.",
    "C15": " Round 6: diamonds whose shared saved query has alternatives; results are compared as canonical filter trees; (R4) ranges over whatever functions carry the expansion, a module-level container counts as a cache only if the module writes it.",
    "C16": " Round 6: (R7) no Jinja environment on the template path escapes its output.",
    "C17": " Round 6: page links under a notes directory whose path contains a dot; (R6) the ID / RID lookup statement is evaluated symbolically: note = link.note, link.property = property, property.name = key, link.value = id, all conjunctive.",
}


# round 7 (DESIGN.md 9.11)
ROUND7 = {
    "C01": " Round 7: multi-line verbatim bodies with trailing blanks / a blank-only continuation line.",
    "C04": " Round 7: (R6) clauses a query does not write keep their defaults: the listener is driven in ParseTreeWalker order over `S note`, `W o`, `S note W o` from sentinel fields.",
    "C07": " Round 7: persistence scenarios at the suffix roll-over (zz -> 000); the calendar partition refines non-uniform classes down to the offending date.",
    "C09": " Round 7: property values / count(prop:KEY) over notes that lack the key (no phantom empty value).",
    "C10": " Round 7: every kind of item moved as x / ~ lands as the requested kind; (R7) the template-choice scenarios of C16 are adopted for a destination that does not exist yet.",
    "C13": " Round 7: every file-removing function the db commands run around their handlers (session / database preparation) is run by itself in the virtual world and must leave next_ids.json alone.",
    "C15": " Round 7: reads through file handles are modelled; an expansion must stay on one line.",
    "C16": " Round 7: a caller variable named like a capture gives way to it; overwrite + no matching pattern leaves the existing target in place.",
}


# round 8 (DESIGN.md 9.12)
ROUND8 = {
    "C01": " Round 8: pages driven through the listener are read back through Page.notes on the page object it built (no note lost, file order).",
    "C03": " Round 8: several property filters of one AND group, in all iteration orders of the set, each keep their own membership operator and key.",
    "C08": " Round 8: (R5) the built-page read-back of C01 is adopted for 'all of its notes are indexed'; (R7) the error collector that decides has_errors listens to Parser-derived recognisers only.",
}


# round 9 (DESIGN.md 9.13)
ROUND9 = {
    "C04": " Round 9: (R2) priority spellings and pooled priority atoms are compiled through enterAnd_filter (helper names free).",
    "C07": " Round 9: a persistence scenario with 400 dated counters, the oldest being asked for (nothing is pruned).",
    "C14": " Round 9: (R2) get_all_zfiles is run abstractly over a directory object that records the glob patterns and answers with marker paths: patterns exactly *.zo/*.zot/*.zoq, every marker yielded once.",
    "C17": " Round 9: indented sub-bullets that look like items, doubled blanks between targets.",
}


# round 10 (DESIGN.md 9.14)
ROUND10 = {
    "C03": " Round 10: two juxtaposed parenthesised groups are the AND of their ORs; smart case on concrete texts (mixed case is case-sensitive).",
    "C07": " Round 10: (R6) the ZID-position obligations of C05.R2 are adopted (the ZID is written directly behind the item prefix).",
    "C10": " Round 10: hidden-metadata scenarios with look-alike tags in the body and with the inherited tags wrapped in punctuation.",
    "C17": " Round 10: punctuation on either side of a target (ten wrappers x three targets).",
    "C18": " Round 10: only group members are run through str.format (decided where braces make it observable).",
}


# round 11 (DESIGN.md 9.15)
ROUND11 = {
    "C04": " Round 11: (R5) conjunctions that hold nothing but groups, compared up to redundant parentheses.",
    "C06": " Round 11: the write-back keeps the hash-map entries of pages it did not touch; the message bus handles nothing after a failing command (abstract run of messagebus._handle); the removal deletes the page row after its last interior commit.",
    "C08": " Round 11: the syntax-error callback is run with e=None (inline-repaired errors) and must record without raising; the bus rule.",
    "C11": " Round 11: (R8) the per-page order obligations of C06.R2 are adopted (the stamp decision reads the page's previous index state).",
    "C13": " Round 11: the bus rule; the removal's commit order (R6).",
    "C15": " Round 11: saved-query names with dots / dashes / sub-directories; (R6) C04.R5 adopted.",
    "C16": " Round 11: a capture of the empty string is still a template variable.",
    "C17": " Round 11: (R7) the per-page order obligations of C06.R2 are adopted.",
}


def main() -> None:
    props = [json.loads(l) for l in (VERIF / "properties.jsonl").read_text().splitlines() if l.strip()]
    checks = []
    na = []
    for p in props:
        pid = p["id"]
        if pid in CHECKS:
            tech, text, note, ref = CHECKS[pid]
            text = text + ADDENDA.get(pid, "") + ROUND34.get(pid, "") + ROUND5.get(pid, "") + ROUND6.get(pid, "") + ROUND7.get(pid, "") + ROUND8.get(pid, "") + ROUND9.get(pid, "") + ROUND10.get(pid, "") + ROUND11.get(pid, "") + (METHOD if pid in ("C01", "C02", "C03", "C05", "C06", "C07", "C08", "C09", "C10", "C11", "C12", "C13", "C14", "C15", "C16", "C17", "C18") else "")
            checks.append(
                {
                    "property_id": pid,
                    "quick_cmd": f"/venv/bin/python -m zverif.run {pid} --tier quick",
                    "thorough_cmd": f"/venv/bin/python -m zverif.run {pid} --tier thorough",
                    "evidence_file": f"/verif/evidence/{pid}.json",
                    "replay_cmd_template": f"/venv/bin/python -m zverif.run {pid} --tier quick --replay {{path}}",
                    "engine": "zverif",
                    "level_claimed": {"category": "other", "text": text, "design_ref": ref},
                    "level_note": note,
                    "technique": "static analysis: " + tech,
                }
            )
        else:
            na.append({"property_id": pid, "reason": NOT_APPLICABLE.get(pid) or NOT_YET.get(pid) or "static check for this property is not built yet (work in progress); nothing is claimed"})
    manifest = {
        "version": 1,
        "setup_cmd": "/venv/bin/python -c \"import antlr4, ast; print('zverif needs no build step')\"",
        "hooks": {
            "guard": "ZORG_VERIF",
            "enable": "none: static analysis reads the source tree; no hooks or instrumentation exist in /repo",
            "baseline_off_cmd": "cd /repo && /venv/bin/python -m pytest -ra -q -p no:cacheprovider --timeout=900 --continue-on-collection-errors",
            "source_commits": [],
            "add_only": True,
        },
        "engines": [
            {
                "name": "zverif",
                "path": "/verif/zverif",
                "serves_properties": sorted(CHECKS),
                "kind_free_text": "repository-specific static analysis in Python (ast-based py-model with annotation types and call graph, "
                "structured path enumeration, string-shape domain, table agreement, ATN-derived grammar/lexer automata, abstract "
                "interpretation of listener handlers over the grammar); never imports or runs zorg",
            }
        ],
        "checks": checks,
        "not_applicable": na,
        "notes": "Exit codes: 0 = every obligation proved (or refuted only by entries of known_findings.json, printed as KNOWN-FINDING); "
        "1 = VIOLATION (new refutation); 2 = ANALYSIS-ERROR (vanished anchor / unrecognised shape / instance floor) - never a silent pass. "
        "Genuine defects repaired in /repo are the 'fix:' commits listed in known_findings.json with status fixed.",
    }
    (VERIF / "MANIFEST.json").write_text(json.dumps(manifest, indent=1) + "\n")
    print(f"MANIFEST.json: {len(checks)} checks, {len(na)} not_applicable")


if __name__ == "__main__":
    main()
