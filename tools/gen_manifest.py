#!/venv/bin/python
"""Regenerates /verif/MANIFEST.json from the table below (kept next to the checks)."""

import json
from pathlib import Path

VERIF = Path(__file__).resolve().parent.parent

# pid -> (technique, what the check decides, what it does not decide / trusted base, design ref)
CHECKS = {
    "C18": (
        "AST dataflow rule (list-homomorphism shape) + constant interval evaluation",
        "Static proof obligations on expand_file_group_paths/_paths_from_file_group: the result list is filled only by "
        "append/extend inside one loop over the input in input order, nothing else survives an iteration (no carried or "
        "threaded state, no module-level memo), '@' members recurse through the same map and the marker strip matches "
        "the marker, and the date window is the local today minus 0..6 days with yyyymmdd derived from the same dates. "
        "These are necessary conditions of in-place, in-order, concatenation-distributive expansion; they hold for every "
        "input because they are facts about every path of the two functions, which tests sampling a few maps cannot show.",
        "Decides the structural clauses only, not rendered path strings; assumes str.format semantics and acyclic maps "
        "(as the property states).",
        "DESIGN.md section 4, C18",
    ),
}

CHECKS["C07"] = (
    "abstract interpretation of the allocator over character sets (alphabet fixpoint, symbolic-prefix successor shapes), "
    "lexer-ATN product automaton inclusion, path rule for persist-before-return",
    "Proof obligations decided from source: (R1) the least fixed point of characters _get_next_id can emit is inside ZID_CHAR of both "
    "lexer ATNs, disjoint from the excluded look-alikes, and has the size giving 135,252 suffixes; (R2) on every (prefix, pivot, trailing-max) "
    "shape the successor keeps the symbolic prefix, moves the pivot to its immediate successor and pads with the minimum, the only length change "
    "is 2->3 and the only raise is at max^3, hence the chain is strictly increasing and visits every suffix; (R3) every return of get_next is "
    "preceded by a next_ids.json write of the advanced map and no cached copy can shadow the file; (R4) every YYMMDD#A{2,3} is exactly one ZID token "
    "in both lexers (automaton inclusion) and is accepted by is_zid (abstract evaluation over character-class strings); (R5) who calls what. "
    "Exhaustive over the finite domains, which a test that allocates one ID cannot be.",
    "Uniqueness follows from R2+R3 for a single process (the statement excludes concurrency). Trusts ANTLR longest-match/first-rule lexing, "
    "strftime printing real dates. Known finding: the last suffix 'zzz' is never handed out.",
    "DESIGN.md section 4, C07",
)

CHECKS["C14"] = (
    "string-shape analysis of replacement keys/values, table rule on the glob set, path-order rule",
    "Decides the structural clauses of link retargeting: every str.replace key is '[[' + source-name + a non-empty link delimiter, both "
    "delimiters (']' and '#') are covered, each value mirrors its key with the destination name derived by the same transforms, names are "
    "derived by exact suffix removal (no strip()-as-suffix), a page name is never interpolated into a regex unescaped, the rewrite loop "
    "visits exactly *.zo/*.zot/*.zoq recursively and rewrites each file from its own content, and the rename precedes the rewrites. "
    "These hold for all (A, B) pairs and directory contents because they are facts about the code's shapes, not about sampled names.",
    "Does not decide byte-level results (newline translation by read_text/write_text is outside). A regex-based rewrite is reported as undecided (exit 2) unless it is refuted by the missing re.escape.",
    "DESIGN.md section 4, C14",
)
CHECKS["C15"] = (
    "path enumeration + propositional decision over the wrap condition, None-check discipline rule, purity rule",
    "Decides: (R1) on every path that returns a saved clause or substitutes it for {name}, the text is parenthesised unless the path "
    "excludes a '|' in it, for every valuation of the other branch atoms; (R2) every result of the two expansion functions is tested for "
    "None before any use and the None branch ends in an error; (R3) nested names are expanded through the same function; (R4) the clause is "
    "read from the .zoq file on each call and no module-level cache or memoiser is consulted. Quantifies over all saved-query sets because "
    "the obligations are per path, not per input.",
    "Does not evaluate result sets or termination on cyclic sets (excluded by the statement). Trusts the query grammar's subfilter rule.",
    "DESIGN.md section 4, C15",
)
CHECKS["C16"] = (
    "path enumeration with truth-table (decision) evaluation over exists/overwrite atoms, must-pass-through and who-may-call rules",
    "Decides: (R1) for every path of init_from_template that reaches a write of the target there is no valuation of the branch atoms with "
    "exists(target)=T and overwrite=F (local boolean definitions are expanded, unknown atoms are free), and the tested path is the written "
    "path; (R2) patterns are tried in configuration order and the loop leaves at the first match; (R3) every writing path matched a pattern "
    "or was given a template; (R4) only configuration-fed call sites may pass the overwrite flag (4 call sites); (R5) the date-like capture "
    "regex and strptime format agree; (R6) the stripped template copy is rebuilt on every path before it is rendered and no module-level "
    "cache is consulted. Idempotence follows from R1.",
    "Rendered bytes are jinja2's; not decided. Trusts Path.exists/write_text semantics.",
    "DESIGN.md section 4, C16",
)

NOT_YET = {
}

NOT_APPLICABLE: dict[str, str] = {}


def main() -> None:
    props = [json.loads(l) for l in (VERIF / "properties.jsonl").read_text().splitlines() if l.strip()]
    checks = []
    na = []
    for p in props:
        pid = p["id"]
        if pid in CHECKS:
            tech, text, note, ref = CHECKS[pid]
            checks.append(
                {
                    "property_id": pid,
                    "quick_cmd": f"/venv/bin/python -m zverif.run {pid} --tier quick",
                    "thorough_cmd": f"/venv/bin/python -m zverif.run {pid} --tier thorough",
                    "evidence_file": f"/verif/evidence/{pid}.json",
                    "replay_cmd_template": f"/venv/bin/python -m zverif.run {pid} --tier quick --replay {{path}}",
                    "engine": "zverif",
                    "level_claimed": {"category": "other", "text": text, "design_ref": ref},
                    "level_note": note,
                    "technique": "static analysis: " + tech,
                }
            )
        else:
            na.append({"property_id": pid, "reason": NOT_APPLICABLE.get(pid) or NOT_YET.get(pid) or "static check for this property is not built yet (work in progress); nothing is claimed"})
    manifest = {
        "version": 1,
        "setup_cmd": "/venv/bin/python -c \"import antlr4, ast; print('zverif needs no build step')\"",
        "hooks": {
            "guard": "ZORG_VERIF",
            "enable": "none: static analysis reads the source tree; no hooks or instrumentation exist in /repo",
            "baseline_off_cmd": "cd /repo && /venv/bin/python -m pytest -ra -q -p no:cacheprovider --timeout=900 --continue-on-collection-errors",
            "source_commits": [],
            "add_only": True,
        },
        "engines": [
            {
                "name": "zverif",
                "path": "/verif/zverif",
                "serves_properties": sorted(CHECKS),
                "kind_free_text": "repository-specific static analysis in Python (ast-based py-model with annotation types and call graph, "
                "structured path enumeration, string-shape domain, table agreement, ATN-derived grammar/lexer automata, abstract "
                "interpretation of listener handlers over the grammar); never imports or runs zorg",
            }
        ],
        "checks": checks,
        "not_applicable": na,
        "notes": "Exit codes: 0 = every obligation proved (or refuted only by entries of known_findings.json, printed as KNOWN-FINDING); "
        "1 = VIOLATION (new refutation); 2 = ANALYSIS-ERROR (vanished anchor / unrecognised shape / instance floor) - never a silent pass. "
        "Genuine defects repaired in /repo are the 'fix:' commits listed in known_findings.json with status fixed.",
    }
    (VERIF / "MANIFEST.json").write_text(json.dumps(manifest, indent=1) + "\n")
    print(f"MANIFEST.json: {len(checks)} checks, {len(na)} not_applicable")


if __name__ == "__main__":
    main()
