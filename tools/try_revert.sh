#!/bin/bash
# usage: tools/try_revert.sh <fix-commit> <PID>...   -- re-introduces the defect a fix: commit repaired (scratch worktree) and runs checks
c=$1; shift
f=$(mktemp /tmp/zrev.XXXXXX.diff)
git -C /repo diff "$c" "$c^" -- src > "$f"
/verif/tools/try_mutant.sh "$f" "$@"
rm -f "$f"
