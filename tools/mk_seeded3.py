"""Store the round-3 independent mutants (/tmp/mutants3/<Cxx_A|B>) as /verif/seeded/<Cxx_E|F> with detection results.

Detection is computed with the in-memory overlay runner (zverif.selftest.run_seeded) against ALL 18 checks; only
checks that report a new violation are listed under detected_by (an empty detected_by = not caught, recorded as such).
Re-runnable: `mk_seeded3.py --refresh` recomputes detected_by of the stored E/F entries from /verif/seeded itself.
"""
import json, shutil, sys
from concurrent.futures import ProcessPoolExecutor
from pathlib import Path

sys.path.insert(0, "/verif")
from zverif.selftest import run_seeded  # noqa: E402

NEEDS = {
 "C01_A": ("is_short_date_spec checks month/day ranges with a fixed 29-day February instead of parsing", "a body word shaped like a ZID / modify date dated Feb 29 of a non-leap year"),
 "C01_B": ("per-item reset moved from enterItem to after a note is emitted", "a todo without explicit priority after a placeholder todo (prefix + priority only) that emits no note"),
 "C02_A": ("a tag already in scope is not recorded again", "a section header repeating a tag of the last note of the previous section"),
 "C02_B": ("property scopes merged with ChainMap (first mapping wins) instead of `|`", "one property key given at several scopes"),
 "C03_A": ("case-sensitive text filter run as GLOB '*text*' in the database", "a case-sensitive quoted text containing [, ], ? or *"),
 "C03_B": ("date-valued property filters compare ISO strings instead of date()", "a property that has free-form values on some notes and dates on others"),
 "C04_A": ("a parenthesised group with one alternative is folded into its parent", "`o (x)`: atoms of the group pool with the parent's instead of nesting"),
 "C04_B": ("value type inference tests all-digits before is_date_spec", "a property atom whose value is a short YYMMDD date"),
 "C05_A": ("unsupported ZID characters rewritten as frozenset('IOQSgilpqy'), silently dropping 'j'", "more than 39 ZID-less notes sharing one creation date (a suffix containing j is issued)"),
 "C05_B": ("write-back splits with splitlines(keepends=True)", "a page containing U+2028 / form feed inside an item that precedes ZID-less items"),
 "C06_A": ("per-page checkpoint writes the whole examined hash map", "a reindex aborted after the first of several changed pages"),
 "C06_B": ("restricted reindex resolves the given paths", "`db reindex <path>` on a notes directory reached through a symlink"),
 "C07_A": ("next-ID padding via ljust(2, '0')", "three-character suffixes: the carry leaves a too-short suffix"),
 "C07_B": ("_write_to_disk drops counters more than 365 days older than the newest date", "back-dated notes allocated in separate runs"),
 "C08_A": ("FileStream opened with encoding='utf-8' and strict errors", "a page whose bytes are not valid UTF-8"),
 "C08_B": ("whitelist read as one string (substring membership)", "a broken page whose name is a substring of a whitelisted name"),
 "C09_A": ("section label always prepends the H1 title", "sub-sections that precede any H1 (stray separator)"),
 "C09_B": ("empty string returned when no note matches", "count(...) with a WHERE clause that no note satisfies"),
 "C10_A": ("FileManager caches page lines per path", "moving a note to the bottom of its own page"),
 "C10_B": ("body-has-tag test accepts any non-alphanumeric continuation", "a body word like +home_office when the section tag is +home"),
 "C11_A": ("re-stamp strips the old date with split() instead of split(' ')", "a multi-line stamped note edited again"),
 "C11_B": ("write-back splits with splitlines(keepends=True)", "a page with U+2028 / form feed above a note that gets stamped"),
 "C12_A": ("re-stamp strips the old date with split() instead of split(' ')", "a multi-line stamped note rendered by a query"),
 "C12_B": ("to_string strips trailing blanks of every body line", "a multi-line note with a whitespace-only continuation line"),
 "C13_A": ("remove_file_by_name skipped for pages missing from the hash map", "a page indexed but absent from the hash map (crash between commit and hash write)"),
 "C13_B": ("per-page checkpoint into the OLD hash map", "an interrupted reindex run again"),
 "C14_A": ("each link form replaced on the original contents (last one wins)", "a file linking to the renamed page both plainly and with an anchor"),
 "C14_B": ("extension removed with rstrip('.zo')", "a page whose stem ends in o / z / ."),
 "C15_A": ("parentheses skipped when the saved clause starts with '(' and ends with ')'", "a saved clause (a) | (b) AND-ed with something"),
 "C15_B": ("expansion memoised with lru_cache", "a saved query edited / removed between two executions in one process"),
 "C16_A": ("stripped template copy reused when its mtime is newer", "two templates with the same basename in one invocation"),
 "C16_B": ("page opened for writing before rendering", "a rendering that raises leaves an empty page behind"),
 "C17_A": ("targets of a line de-duplicated", "a line mentioning the same target twice: option numbering shifts"),
 "C17_B": ("'multiple pages' decided on the number of notes", "an ID owned by several notes of one page"),
 "C18_A": ("cycle guard as one shared ancestor set never released", "a sub-group shared by two sibling groups"),
 "C18_B": ("day window computed by an lru_cache'd helper", "a process that lives across midnight"),
}
ALL = [f"C{i:02d}" for i in range(1, 19)]
LET = {"A": "E", "B": "F"}
out = Path("/verif/seeded")


def detect(patch: Path, pid: str) -> dict:
    jobs = [(f"{patch.parent.name}@{c}", c, str(patch), "/repo") for c in ALL]
    with ProcessPoolExecutor(max_workers=16) as ex:
        rs = list(ex.map(run_seeded, jobs))
    det = {}
    for c, r in zip(ALL, rs):
        if r["status"] == "ok":
            det[c] = dict(violation=True, rules=r["rules"])
    return det


def main() -> None:
    refresh = "--refresh" in sys.argv
    only = {a for a in sys.argv[1:] if not a.startswith("-")}
    if refresh:
        for tgt in sorted(out.glob("C??_[EF]")):
            if only and tgt.name not in only:
                continue
            meta = json.loads((tgt / "meta.json").read_text())
            meta["detected_by"] = detect(tgt / "patch.diff", meta["breaks_property"])
            (tgt / "meta.json").write_text(json.dumps(meta, indent=1) + "\n")
            print(tgt.name, sorted(meta["detected_by"]), flush=True)
        return
    for d in sorted(Path("/tmp/mutants3").glob("C??_?")):
        mid = d.name
        pid, letter = mid.split("_")
        new_id = f"{pid}_{LET[letter]}"
        if only and mid not in only and new_id not in only:
            continue
        tgt = out / new_id
        tgt.mkdir(parents=True, exist_ok=True)
        shutil.copy(d / "patch.diff", tgt / "patch.diff")
        shutil.copy(d / "demo.py", tgt / "demo.py")
        conf = json.loads((d / "confirm.json").read_text())
        what, needs = NEEDS[mid]
        meta = dict(id=new_id, round=3, breaks_property=pid, change=what, needs_to_manifest=needs, source="independent sub-agent given only the property text and a scratch worktree",
                    confirmed=dict(repo_head=conf["head"], patch_applies=conf["applies"], suite_with_change=conf["suite_with_mutant"], demo_exit_clean=conf["demo_clean_rc"], demo_exit_with_change=conf["demo_mutant_rc"],
                                   how="scratch worktree of /repo HEAD, `PYTHONPATH=<wt>/src /venv/bin/python demo.py` before and after `git apply patch.diff`, then the pinned pytest suite with the change"),
                    detected_by=detect(tgt / "patch.diff", pid))
        (tgt / "meta.json").write_text(json.dumps(meta, indent=1) + "\n")
        print(new_id, sorted(meta["detected_by"]), flush=True)


if __name__ == "__main__":
    main()
