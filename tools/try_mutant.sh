#!/bin/bash
# usage: tools/try_mutant.sh <patch.diff> <PID> [<PID>...]
# Applies the patch to a scratch worktree of /repo (outside /repo and /verif),
# runs the listed checks against it with evidence redirected, removes the worktree.
set -u
patch=$(readlink -f "$1"); shift
wt=$(mktemp -d /tmp/zmut.XXXXXX)
rmdir "$wt"
git -C /repo worktree add -q --detach "$wt" HEAD || exit 3
if ! git -C "$wt" apply "$patch" 2>/dev/null; then
  if ! git -C "$wt" apply --3way "$patch" 2>/dev/null; then
    if ! (cd "$wt" && patch -p1 -s -F3 < "$patch"); then
      echo "PATCH-DOES-NOT-APPLY $patch"; git -C /repo worktree remove --force "$wt"; exit 4
    fi
  fi
fi
export ZVERIF_EVIDENCE_DIR=$(mktemp -d /tmp/zmutev.XXXXXX)
for pid in "$@"; do
  (cd /verif && /venv/bin/python -m zverif.run "$pid" --repo "$wt" 2>&1 | grep -E "VIOLATION|ANALYSIS-ERROR|^\s+src|obligations=" | sed "s|$wt/||" | head -12)
done
rm -rf "$ZVERIF_EVIDENCE_DIR"
git -C /repo worktree remove --force "$wt"
