"""Store the round-4 independent mutants (/tmp/mutants4/<Cxx_A|B>) as /verif/seeded/<Cxx_G|H> with detection results.

Detection is computed with the in-memory overlay runner (zverif.selftest.run_seeded) against ALL 18 checks; only
checks that report a new violation are listed under detected_by (an empty detected_by = not caught, recorded as such).
Re-runnable: `mk_seeded3.py --refresh` recomputes detected_by of the stored E/F entries from /verif/seeded itself.
"""
import json, shutil, sys
from concurrent.futures import ProcessPoolExecutor
from pathlib import Path

sys.path.insert(0, "/verif")
from zverif.selftest import run_seeded  # noqa: E402

NEEDS = {
 "C01_A": ("flatten_h1_notes rewritten level by level (all H2 blocks, then all H3 blocks ...)", "a page whose non-last H2 has an H3 child (or non-last H3 an H4): Page.notes is no longer in file order"),
 "C01_B": ("a ZID-shaped word counts as the item's ZID whenever it is the 2nd id and none is set", "an item without ZID whose second id-like word looks like a ZID (`- see 230704#k2 ...`)"),
 "C02_A": ("enterDate credits a date to the note context without testing in_note", "a dated section header directly after an undated one-word item"),
 "C02_B": ("property scopes merged with ChainMap (first mapping wins)", "one property key defined at several scopes"),
 "C03_A": ("tag sub-query accumulates its WHERE across loop iterations", "two tags of the same kind in one conjunction"),
 "C03_B": ("negated case-sensitive text filter pre-filters with NOT LIKE", "!'Widget' with notes containing widget / WIDGET"),
 "C04_A": ("single-alternative parentheses flattened into the enclosing group", "`o (x)`"),
 "C04_B": ("signed-N refactor of relative dates misses the years branch", "a negative year-unit relative date (^-1y)"),
 "C05_A": ("priority prefix recognised with an unanchored regex P[0-9]", "a todo whose first body word starts with P<digit> but is longer (o P2P ...)"),
 "C05_B": ("`while next_ch in unsupported` became `if`", "the 40th ZID of a date (suffix 0j)"),
 "C06_A": ("per-page checkpoint writes the whole examined hash map", "a reindex aborted after the first of several changed pages"),
 "C06_B": ("re-stamp strips the old date with split() instead of split(' ')", "a multi-line stamped note edited again"),
 "C07_A": ("excluded-character tuple retyped as a frozenset with 'l' replaced by a second 'I'", "the 41st ZID of a date (suffix 0l)"),
 "C07_B": ("_write_to_disk never moves a counter 'backwards' (string comparison)", "the roll-over from zz to 000"),
 "C08_A": ("ErrorManager registered before removeErrorListeners()", "any broken page compiled non-verbosely: not flagged, indexed partially"),
 "C08_B": ("file_hash.json written before the reindex loop", "a second reindex after a refused one"),
 "C09_A": ("notes sorted once by the space-joined composite of all GROUP BY keys", "two GROUP BY dimensions where one label extends another by a word (Work / Work 2024)"),
 "C09_B": ("file label derived with rstrip('.zo')", "a page whose name ends in o / z / ."),
 "C10_A": ("hidden metadata inserted after the first word of the body", "moving a note that carries a modify date and inherited tags"),
 "C10_B": ("first-line locator rewritten as a regex without terminator after the ZID", "an earlier note whose 3-character ZID starts with the moved note's 2-character ZID"),
 "C11_A": ("re-stamp strips the old date with split() instead of split(' ')", "a multi-line stamped note edited again"),
 "C11_B": ("Note equality compares to_string() output", "a priority-only edit of a closed / cancelled todo"),
 "C12_A": ("priority rendered only for open and blocked todos", "a parent todo with a non-default priority"),
 "C12_B": ("_select_note strips trailing blanks of every line", "a multi-line note with a whitespace-only continuation line"),
 "C13_A": ("per-page session.commit() of reindex dropped (one commit at the end, after the hash map write)", "a kill between the file_hash.json write and the final commit, for edits that produce no write-back event"),
 "C13_B": ("'new file' decided from file_hash.json: remove_file_by_name skipped for pages missing from the map", "a brand-new page committed, then a kill before the file_hash.json write; the rerun indexes the page twice"),
 "C14_A": ("extension removed with rstrip('.zo')", "`file rename todo.zo tasks.zo`"),
 "C14_B": ("single-pass regex with \\b instead of the two literal terminators", "links to pages whose names extend the renamed one by / . or -"),
 "C15_A": ("parentheses skipped when the saved clause starts with '(' and ends with ')'", "a saved clause (a) | (b) AND-ed with something"),
 "C15_B": ("cycle guard whose visited set is shared between sibling branches", "a diamond of saved queries (acyclic)"),
 "C16_A": ("existence check moved before path normalisation", "an existing page named relative to the notes dir / without extension"),
 "C16_B": ("stripped template copy reused when its mtime is newer", "two templates with the same basename in one process"),
 "C17_A": ("PROMPT lists de-duplicated targets, options index the raw list", "a line repeating a target plus another target after it"),
 "C17_B": ("'multiple pages' decided on the number of notes", "an ID owned by several notes of one page"),
 "C18_A": ("cycle guard that never un-marks a group", "a sub-group shared by two sibling groups"),
 "C18_B": ("day window computed by an unkeyed lru_cache'd helper", "a process that lives across midnight"),
}
ALL = [f"C{i:02d}" for i in range(1, 19)]
LET = {"A": "G", "B": "H"}
out = Path("/verif/seeded")


def detect(patch: Path, pid: str) -> dict:
    jobs = [(f"{patch.parent.name}@{c}", c, str(patch), "/repo") for c in ALL]
    with ProcessPoolExecutor(max_workers=16) as ex:
        rs = list(ex.map(run_seeded, jobs))
    det = {}
    for c, r in zip(ALL, rs):
        if r["status"] == "ok":
            det[c] = dict(violation=True, rules=r["rules"])
    return det


def main() -> None:
    refresh = "--refresh" in sys.argv
    only = {a for a in sys.argv[1:] if not a.startswith("-")}
    if refresh:
        for tgt in sorted(out.glob("C??_[GH]")):
            if only and tgt.name not in only:
                continue
            meta = json.loads((tgt / "meta.json").read_text())
            meta["detected_by"] = detect(tgt / "patch.diff", meta["breaks_property"])
            (tgt / "meta.json").write_text(json.dumps(meta, indent=1) + "\n")
            print(tgt.name, sorted(meta["detected_by"]), flush=True)
        return
    for d in sorted(Path("/tmp/mutants4").glob("C??_?")):
        mid = d.name
        pid, letter = mid.split("_")
        new_id = f"{pid}_{LET[letter]}"
        if only and mid not in only and new_id not in only:
            continue
        if not (d / "confirm.json").exists():
            print("skip (not confirmed)", mid)
            continue
        tgt = out / new_id
        tgt.mkdir(parents=True, exist_ok=True)
        shutil.copy(d / "patch.diff", tgt / "patch.diff")
        shutil.copy(d / "demo.py", tgt / "demo.py")
        conf = json.loads((d / "confirm.json").read_text())
        what, needs = NEEDS[mid]
        meta = dict(id=new_id, round=4, breaks_property=pid, change=what, needs_to_manifest=needs, source="independent sub-agent given only the property text and a scratch worktree",
                    confirmed=dict(repo_head=conf["head"], patch_applies=conf["applies"], suite_with_change=conf["suite_with_mutant"], demo_exit_clean=conf["demo_clean_rc"], demo_exit_with_change=conf["demo_mutant_rc"],
                                   how="scratch worktree of /repo HEAD, `PYTHONPATH=<wt>/src /venv/bin/python demo.py` before and after `git apply patch.diff`, then the pinned pytest suite with the change"),
                    detected_by=detect(tgt / "patch.diff", pid))
        (tgt / "meta.json").write_text(json.dumps(meta, indent=1) + "\n")
        print(new_id, sorted(meta["detected_by"]), flush=True)


if __name__ == "__main__":
    main()
