"""Store the round-5 independent mutants (/tmp/mutants5/<Cxx_A|B>) as /verif/seeded/<Cxx_I|J> with detection results.

Detection is computed with the in-memory overlay runner (zverif.selftest.run_seeded) against ALL 18 checks; only
checks that report a new violation are listed under detected_by (an empty detected_by = not caught, recorded as such).
Re-runnable: `mk_seeded3.py --refresh` recomputes detected_by of the stored E/F entries from /verif/seeded itself.
"""
import json, shutil, sys
from concurrent.futures import ProcessPoolExecutor
from pathlib import Path

sys.path.insert(0, "/verif")
from zverif.selftest import run_seeded  # noqa: E402

NEEDS = {
 "C01_A": ("early return in exitBase_todo for an empty-bodied todo skips the priority reset", "a prioritised todo with an empty body (`o P0 `) followed, anywhere later, by a todo without a priority"),
 "C01_B": ("enterId no longer counts ids inside quoted words", "an item starting with a quoted word followed by a ZID-shaped / YYMMDD / YYYY-MM-DD word"),
 "C02_A": ("enterDate drops the in_note conjunct (ids_in_note is stale between items)", "a dated section header directly after a one-word, undated, ZID-less item"),
 "C02_B": ("property scopes merged with ChainMap in the argument order of the | chain (first mapping wins)", "one property key defined in two enclosing scopes"),
 "C03_A": ("link filter anchor branch uses Link.name.startswith() without autoescape", "`[[foo_bar]]` with a note linking `[[fooxbar#intro]]`"),
 "C03_B": ("text-filter literal extracted with strip('\'\"') instead of [1:-1]", "a quoted text filter whose literal begins / ends with the other quote kind (\"'yes'\")"),
 "C04_A": ("value type inferred with int() instead of all-digits", "a property value such as 1_000 (int() accepts inner underscores)"),
 "C04_B": ("from_date_spec memoised with lru_cache", "the same relative date compiled on two different days in one process"),
 "C05_A": ("`while next_ch in unsupported` became `if`", "the 40th ZID of a date (suffix 0j)"),
 "C05_B": ("reindex skips remove_file_by_name for pages missing from file_hash.json", "`db reindex <one page>` (hash map shrinks to that page) followed by a plain reindex: other pages indexed twice"),
 "C06_A": ("hash map of ALL pages written after each page's commit (checkpoint)", "a reindex that aborts on a broken page after an earlier page succeeded: later changed pages are acknowledged unprocessed"),
 "C06_B": ("'new file' decided from file_hash.json: removal skipped", "`db reindex <path>` without write-back, then a plain reindex"),
 "C07_A": ("padding `while len(next_id) < len(last_id)` became `if`", "a double carry in the three-character range (0zz -> 10)"),
 "C07_B": ("skip loop replaced by a hand-typed alphabet string that contains the excluded 'y'", "the 51st ZID of a date"),
 "C08_A": ("ErrorManager only attached when not verbose", "a broken page compiled in verbose mode (`-v db reindex`, `compile`): not flagged, indexed partially"),
 "C08_B": ("reindex collects broken pages and raises at the end, after recording their hashes", "a second reindex after a refused one"),
 "C09_A": ("grouping sorts once on the space-joined composite of all GROUP BY keys; nested levels only groupby", "two GROUP BY dimensions, one label extending another by a word (Sprint / Sprint 2)"),
 "C09_B": ("the `if h1.title` guard removed from the section label", "an H2 section that hangs off the page's untitled top-level section"),
 "C10_A": ("first-line locator rewritten as a regex + startswith(zid) without terminator", "an earlier note whose three-character ZID extends the moved note's two-character ZID"),
 "C10_B": ("_note_body_has_tag compares with startswith", "an inherited tag that is a proper prefix of a tag the note itself carries (+zorg / +zorg_docs)"),
 "C11_A": ("`modify_date != today` became `modify_date < today`", "an edited note whose modify date lies after the reindex day"),
 "C11_B": ("_add_or_update_modify_date splits the line with split() instead of split(' ')", "an edited note whose first line has two consecutive spaces or a trailing space"),
 "C12_A": ("second modify-date rewrite uses body.split() (flattens multi-line bodies)", "a multi-line note edited on two different days"),
 "C12_B": ("hidden metadata spliced after the first word of the body instead of after the ZID", "moving a note that carries a modify date and inherits tags"),
 "C13_A": ("remove_file_by_name skipped for pages without a recorded hash", "a new page committed, then a kill before the file_hash.json write; the rerun indexes it twice"),
 "C13_B": ("per-page commit replaced by a commit every 20 pages", "a kill between the file_hash.json write and the final commit"),
 "C14_A": ("two-phase rewrite: contents collected under the old paths, written after the rename", "renaming a page that links to itself: the old file is recreated"),
 "C14_B": ("single compiled regex with \\b instead of the two literal terminators", "links to pages whose names extend the renamed one by / . - :"),
 "C15_A": ("parentheses skipped when the clause starts with '(' and ends with ')'", "a saved clause (a) | (b) AND-ed with something"),
 "C15_B": ("mtime-keyed module-level memo of the expanded WHERE filter", "a nested saved query edited / deleted between two queries of one process"),
 "C16_A": ("built template copy reused when its mtime is not older (keyed by basename)", "two templates with the same basename rendered in one process"),
 "C16_B": ("target opened for writing before the template is rendered", "a render that raises after a pattern matched: an empty page is left behind and never initialised"),
 "C17_A": ("the first ZID met is taken for the primary ZID on any line", "a header / continuation line (no primary ZID) that contains ZIDs"),
 "C17_B": ("PROMPT and the direct-open test use de-duplicated targets, option indexing the raw list", "a line repeating a target before another target"),
 "C18_A": ("cycle guard with a shared, never-popped visited set", "a sub-group reachable along two acyclic paths (diamond)"),
 "C18_B": ("datetime.now(tz=utc) for 'today'", "a local time zone whose calendar date differs from UTC's at the time of the call"),
}
ALL = [f"C{i:02d}" for i in range(1, 19)]
LET = {"A": "I", "B": "J"}
out = Path("/verif/seeded")


def detect(patch: Path, pid: str) -> dict:
    jobs = [(f"{patch.parent.name}@{c}", c, str(patch), "/repo") for c in ALL]
    with ProcessPoolExecutor(max_workers=16) as ex:
        rs = list(ex.map(run_seeded, jobs))
    det = {}
    for c, r in zip(ALL, rs):
        if r["status"] == "ok":
            det[c] = dict(violation=True, rules=r["rules"])
    return det


def main() -> None:
    refresh = "--refresh" in sys.argv
    only = {a for a in sys.argv[1:] if not a.startswith("-")}
    if refresh:
        for tgt in sorted(out.glob("C??_[IJ]")):
            if only and tgt.name not in only:
                continue
            meta = json.loads((tgt / "meta.json").read_text())
            meta["detected_by"] = detect(tgt / "patch.diff", meta["breaks_property"])
            (tgt / "meta.json").write_text(json.dumps(meta, indent=1) + "\n")
            print(tgt.name, sorted(meta["detected_by"]), flush=True)
        return
    for d in sorted(Path("/tmp/mutants5").glob("C??_?")):
        mid = d.name
        pid, letter = mid.split("_")
        new_id = f"{pid}_{LET[letter]}"
        if only and mid not in only and new_id not in only:
            continue
        if not (d / "confirm.json").exists():
            print("skip (not confirmed)", mid)
            continue
        tgt = out / new_id
        tgt.mkdir(parents=True, exist_ok=True)
        shutil.copy(d / "patch.diff", tgt / "patch.diff")
        shutil.copy(d / "demo.py", tgt / "demo.py")
        conf = json.loads((d / "confirm.json").read_text())
        what, needs = NEEDS[mid]
        meta = dict(id=new_id, round=5, breaks_property=pid, change=what, needs_to_manifest=needs, source="independent sub-agent given only the property text and a scratch worktree",
                    confirmed=dict(repo_head=conf["head"], patch_applies=conf["applies"], suite_with_change=conf["suite_with_mutant"], demo_exit_clean=conf["demo_clean_rc"], demo_exit_with_change=conf["demo_mutant_rc"],
                                   how="scratch worktree of /repo HEAD, `PYTHONPATH=<wt>/src /venv/bin/python demo.py` before and after `git apply patch.diff`, then the pinned pytest suite with the change"),
                    detected_by=detect(tgt / "patch.diff", pid))
        (tgt / "meta.json").write_text(json.dumps(meta, indent=1) + "\n")
        print(new_id, sorted(meta["detected_by"]), flush=True)


if __name__ == "__main__":
    main()
