#!/venv/bin/python
"""Maintenance helper (never run by a check): add an entry to known_findings.json.
usage: tools/kf.py add <PID> <rule> <key> <what_fails>   |   tools/kf.py fixed <PID> <rule> <commit> <what_failed>"""
import json, sys
from pathlib import Path
p = Path(__file__).resolve().parent.parent / "known_findings.json"
d = json.loads(p.read_text())
cmd = sys.argv[1]
if cmd == "add":
    _, _, pid, rule, key, what = sys.argv
    d["findings"] = [f for f in d["findings"] if not (f.get("key") == key and f["property"] == pid)]
    d["findings"].append(dict(property=pid, rule=rule, key=key, status="open", what_fails=what))
elif cmd == "fixed":
    _, _, pid, rule, commit, what = sys.argv
    d["findings"].append(dict(property=pid, rule=rule, key=f"fixed:{commit}", status="fixed", commit=commit,
                              what_fails=what, line=f"fixed: property={pid} {commit} {what}"))
p.write_text(json.dumps(d, indent=1) + "\n")
