"""Store the round-6 independent mutants (/tmp/mutants6/<Cxx_A|B>) as /verif/seeded/<Cxx_K|L> with detection results.

Detection is computed with the in-memory overlay runner (zverif.selftest.run_seeded) against ALL 18 checks; only
checks that report a new violation are listed under detected_by (an empty detected_by = not caught, recorded as such).
Re-runnable: `mk_seeded3.py --refresh` recomputes detected_by of the stored E/F entries from /verif/seeded itself.
"""
import json, shutil, sys
from concurrent.futures import ProcessPoolExecutor
from pathlib import Path

sys.path.insert(0, "/verif")
from zverif.selftest import run_seeded  # noqa: E402

NEEDS = {
 "C01_A": ("short-date helper parses the year with %y; enterId derives the ZID date through it", "a modify date / ZID whose two-digit year is 69..99"),
 "C01_B": ("Page.notes skips the pre-H1 section when it has no loose block", "a page whose body starts directly with an H2 section"),
 "C02_A": ("in_note reset moved from the exit handlers to enterItem", "a note without any id (bare URL, '...') directly before a dated section header"),
 "C02_B": ("_add_tag skips values 'already in scope' (stale note tags while a header is walked)", "a header tag / link equal to one of the preceding note's own"),
 "C03_A": ("in_op default set once above both tag loops (else branch dropped)", "a negated tag handled before a positive tag in one AND group (!#work @home)"),
 "C03_B": ("OR chain of kind tests replaced by todo_status.in_(...) (NULL never matches)", "one kind atom listing several kinds including '-'"),
 "C04_A": ("lru_cache on from_date_spec / is_short_date_spec / is_long_date_spec", "the same relative date compiled on two different days in one process"),
 "C04_B": ("_SHORT_DATE_FMT '%y%m%d' without the '20' prefix", "a short date atom whose YY is 69..99"),
 "C05_A": ("_update_zo_file splits with splitlines(keepends=True)", "a U+2028 / form feed above a ZID-less note, or a date-only first line"),
 "C05_B": ("`while next_ch in unsupported` became `if`", "the 40th ZID of a date (suffix 0j)"),
 "C06_A": ("per-page checkpoint of the processed page's hash into the old map, written to disk", "a reindex that aborts on a later broken page while an earlier page has a pending write-back"),
 "C06_B": ("explicit reindex paths resolved in the runner", "a notes directory reached through a symlink and `db reindex <path>`"),
 "C07_A": ("create_database unlinks every *.json of the data directory (incl. next_ids.json)", "allocate, `db create` again, allocate on the same date"),
 "C07_B": ("_update_zo_file splits with splitlines(keepends=True)", "a U+2028 / form feed above a note that gets a new ZID"),
 "C08_A": ("tags de-duplicated per scope on insert, no longer across scopes on read", "a tag in scope from the title / a header and repeated by a note: duplicate link rows, IntegrityError on a valid page"),
 "C08_B": ("hash map of all pages written after each page's commit", "a reindex refused because of a later broken page, then a second reindex"),
 "C09_A": ("_to_comparable_date uses the short (YYMMDD) format", "create dates on both sides of a century boundary (2099 / 2100)"),
 "C09_B": ("the `if h1.title` guard removed from the section label", "an H2 section before the page's first H1"),
 "C10_A": ("hidden metadata spliced after the first word of the body", "moving a note that carries a modify date and inherits tags"),
 "C10_B": ("Note.to_string writes a priority only for open todos", "moving a blocked / parent todo with a non-default priority"),
 "C11_A": ("Note.__eq__ compares body.split() word lists", "an edit that only changes blanks / line breaks"),
 "C11_B": ("_update_zo_file splits with splitlines(keepends=True)", "a form feed / U+2028 above a note that gets stamped"),
 "C12_A": ("`while next_ch in unsupported` became `if`", "the 40th ZID of a date: the emitted text does not compile back to a note with that ZID"),
 "C12_B": ("hidden metadata spliced after the first word of the body", "a moved note with a modify date and inherited tags compiles to zid=None"),
 "C13_A": ("next_ids.json replaced by unlink + rename of a scratch file", "a kill between the unlink and the rename: counters restart at 00"),
 "C13_B": ("per-page checkpoint of the processed page's hash", "a kill after the checkpoint and before the page's write-back"),
 "C14_A": ("get_all_zfiles rewritten with glob.iglob('**/*.zo*')", "links inside hidden directories / dot-files are not retargeted"),
 "C14_B": ("simplify_fname strips .zot / .zoq as well", "renaming a template or query page: its links are missed, links to the same-named .zo page are rewritten"),
 "C15_A": ("reference pattern tightened to \\{([\\w-]+)\\}", "a saved query name containing / or ."),
 "C15_B": ("per-expansion memo stores the filter before it is parenthesised", "a saved query with alternatives reached twice in one expansion (diamond)"),
 "C16_A": ("jinja2 Environment(autoescape=True)", "a captured variable / parent name containing & < > ' \""),
 "C16_B": ("built template copy reused when its mtime is not older (keyed by basename)", "two templates with the same basename rendered in one process"),
 "C17_A": ("bulk_prepend_zdir tests '.' in the JOINED path", "a notes directory whose path contains a dot and an extensionless page link"),
 "C17_B": ("get_notes_by_id drops the PropertyLink.prop_id == Property.id join condition", "another note carrying the same value under a different property"),
 "C18_A": ("cycle guard with a shared, never-popped set", "a sub-group referenced twice (diamond, shared sub-group, same @group twice)"),
 "C18_B": ("date table hoisted into an lru_cache'd helper", "two expansions on different days in one process"),
}
ALL = [f"C{i:02d}" for i in range(1, 19)]
LET = {"A": "K", "B": "L"}
out = Path("/verif/seeded")


def detect(patch: Path, pid: str) -> dict:
    jobs = [(f"{patch.parent.name}@{c}", c, str(patch), "/repo") for c in ALL]
    with ProcessPoolExecutor(max_workers=16) as ex:
        rs = list(ex.map(run_seeded, jobs))
    det = {}
    for c, r in zip(ALL, rs):
        if r["status"] == "ok":
            det[c] = dict(violation=True, rules=r["rules"])
    return det


def main() -> None:
    refresh = "--refresh" in sys.argv
    only = {a for a in sys.argv[1:] if not a.startswith("-")}
    if refresh:
        for tgt in sorted(out.glob("C??_[KL]")):
            if only and tgt.name not in only:
                continue
            meta = json.loads((tgt / "meta.json").read_text())
            meta["detected_by"] = detect(tgt / "patch.diff", meta["breaks_property"])
            (tgt / "meta.json").write_text(json.dumps(meta, indent=1) + "\n")
            print(tgt.name, sorted(meta["detected_by"]), flush=True)
        return
    for d in sorted(Path("/tmp/mutants6").glob("C??_?")):
        mid = d.name
        pid, letter = mid.split("_")
        new_id = f"{pid}_{LET[letter]}"
        if only and mid not in only and new_id not in only:
            continue
        if not (d / "confirm.json").exists():
            print("skip (not confirmed)", mid)
            continue
        tgt = out / new_id
        tgt.mkdir(parents=True, exist_ok=True)
        shutil.copy(d / "patch.diff", tgt / "patch.diff")
        shutil.copy(d / "demo.py", tgt / "demo.py")
        conf = json.loads((d / "confirm.json").read_text())
        what, needs = NEEDS[mid]
        meta = dict(id=new_id, round=6, breaks_property=pid, change=what, needs_to_manifest=needs, source="independent sub-agent given only the property text and a scratch worktree",
                    confirmed=dict(repo_head=conf["head"], patch_applies=conf["applies"], suite_with_change=conf["suite_with_mutant"], demo_exit_clean=conf["demo_clean_rc"], demo_exit_with_change=conf["demo_mutant_rc"],
                                   how="scratch worktree of /repo HEAD, `PYTHONPATH=<wt>/src /venv/bin/python demo.py` before and after `git apply patch.diff`, then the pinned pytest suite with the change"),
                    detected_by=detect(tgt / "patch.diff", pid))
        (tgt / "meta.json").write_text(json.dumps(meta, indent=1) + "\n")
        print(new_id, sorted(meta["detected_by"]), flush=True)


if __name__ == "__main__":
    main()
