"""Store the round-7 independent mutants (/tmp/mutants7/<Cxx_A|B>) as /verif/seeded/<Cxx_M|N> with detection results.

Detection is computed with the in-memory overlay runner (zverif.selftest.run_seeded) against ALL 18 checks; only
checks that report a new violation are listed under detected_by (an empty detected_by = not caught, recorded as such).
Re-runnable: `mk_seeded3.py --refresh` recomputes detected_by of the stored E/F entries from /verif/seeded itself.
"""
import json, shutil, sys
from concurrent.futures import ProcessPoolExecutor
from pathlib import Path

sys.path.insert(0, "/verif")
from zverif.selftest import run_seeded  # noqa: E402

NEEDS = {
 "C01_A": ("_add_note rstrips every line of the body", "a multi-line item whose inner lines end in blanks / a blank-only continuation line"),
 "C01_B": ("enterId no longer counts ids inside quoted words", "an item starting with a quoted word followed by a date / ZID word"),
 "C02_A": ("properties fast path `file_props | note_props` when no H1 is current", "a property on the header of an H2 section that precedes the first H1"),
 "C02_B": ("lazy cache of the merged page + section tags, invalidated only when a header tag is added", "a tagged section followed by an untagged section of the same / a higher level"),
 "C03_A": ("_global_link_conds / _ref_link_conds merged with if / elif (one condition per note)", "a note of the page carrying both ID:: and RID::, linked by its RID only"),
 "C03_B": ("case-sensitive text filter through SQLite GLOB, '[' not escaped", "a case-sensitive text containing '['"),
 "C04_A": ("enterSelect_query clears order_by when no ORDER BY is written", "a W-less query without O (saved .zoq / API / `S note`)"),
 "C04_B": ("prop key extracted with lstrip('prop:')", "S prop:<key> with a key starting with p, r or o"),
 "C05_A": ("PageConverter drops the untitled leading section when it has no direct blocks", "a page whose body starts with an H2 section"),
 "C05_B": ("remove_file_by_name skipped for pages missing from the hash map", "db create, `db reindex <one page>`, plain `db reindex`"),
 "C06_A": ("remove_file_by_name skipped for pages missing from the hash map", "a path-restricted reindex without write-back, then a plain reindex after deleting / moving notes"),
 "C06_B": ("the written hash map is {**old, **new}", "a page deleted, reindexed, restored byte-identically, reindexed"),
 "C07_A": ("working in-memory counter cache + per-entry max() merge on write", "roll-over zz -> 000 followed by a restart"),
 "C07_B": ("hand-written calendar in is_short_date_spec (century leap year rule wrong)", "a note created on 2000-02-29"),
 "C08_A": ("create_database writes the whitelist only when it is non-empty", "all whitelisted pages repaired, db create, one of them breaks again"),
 "C08_B": ("enterH2_header builds the implicit H1 without assigning page.h0", "a page whose body starts directly with an H2 section"),
 "C09_A": ("_select_prop_values uses properties.get(key, '')", "count(prop:KEY) / grouped selects over notes of which some lack the key"),
 "C09_B": ("the `if h1.title` guard removed from the section label", "an H2 section before the page's first H1 with G section"),
 "C10_A": ("init_from_template loses its break (last matching pattern wins)", "note move to a missing page whose name matches two patterns"),
 "C10_B": ("_to_done_note keeps the payload of already closed / cancelled todos", "moving a cancelled todo with marker x (or a closed one with ~)"),
 "C11_A": ("second stamp rewrites the body with split() (flattens multi-line bodies)", "a bulleted note stamped on one day and edited again on a later day"),
 "C11_B": ("Note.__eq__ compares to_string()", "a priority-only edit of a closed / cancelled todo"),
 "C12_A": ("the kept .zoq header is every '#' line of the old page (filter instead of takewhile)", "a saved query refreshed grouped, then switched to ungrouped and refreshed again"),
 "C12_B": ("second stamp rewrites the body with split()", "a multi-line note with bullet properties edited on two days, then emitted by a query"),
 "C13_A": ("_prep_sqlite_db unlinks every *.json next to the deleted DB (incl. next_ids.json)", "db create killed between two write-backs, then re-run"),
 "C13_B": ("per-page hash checkpoint for pages without pending events; whitelist only written at the end", "a repaired whitelisted page, reindex killed before the whitelist write, re-run"),
 "C14_A": ("get_all_zfiles: one rglob('*.zo*') filtered with an unanchored regex .match", "a backup file such as index.zo.bak containing links to the page"),
 "C14_B": ("scan first, move, then write the collected contents", "renaming a page that links to itself"),
 "C15_A": ("cycle guard with a shared, never-popped set", "a diamond of saved queries under one top-level reference"),
 "C15_B": ("first line read with readline() (keeps the newline)", "a saved page whose first line ends with the WHERE clause and is followed by further lines"),
 "C16_A": ("`var_map = match.groupdict() | var_map` (caller variables win)", "a caller variable named like a captured group"),
 "C16_B": ("existing target unlinked up front when overwriting was requested", "--force on an existing page that no pattern matches / whose render fails"),
 "C17_A": ("named-URL argument passed through urllib.parse.quote", "[!id:arg] with = & + in the argument"),
 "C17_B": ("ambiguity of a [@rid] target decided on the number of pages", "two notes of one page owning the same RID"),
 "C18_A": ("groups spliced into the list while enumerate walks it", "a group that expands to nothing directly followed by another @group argument"),
 "C18_B": ("date table in an unkeyed lru_cache'd helper", "two expansions on different days in one process"),
}
ALL = [f"C{i:02d}" for i in range(1, 19)]
LET = {"A": "M", "B": "N"}
out = Path("/verif/seeded")


def detect(patch: Path, pid: str) -> dict:
    jobs = [(f"{patch.parent.name}@{c}", c, str(patch), "/repo") for c in ALL]
    with ProcessPoolExecutor(max_workers=16) as ex:
        rs = list(ex.map(run_seeded, jobs))
    det = {}
    for c, r in zip(ALL, rs):
        if r["status"] == "ok":
            det[c] = dict(violation=True, rules=r["rules"])
    return det


def main() -> None:
    refresh = "--refresh" in sys.argv
    only = {a for a in sys.argv[1:] if not a.startswith("-")}
    if refresh:
        for tgt in sorted(out.glob("C??_[MN]")):
            if only and tgt.name not in only:
                continue
            meta = json.loads((tgt / "meta.json").read_text())
            meta["detected_by"] = detect(tgt / "patch.diff", meta["breaks_property"])
            (tgt / "meta.json").write_text(json.dumps(meta, indent=1) + "\n")
            print(tgt.name, sorted(meta["detected_by"]), flush=True)
        return
    for d in sorted(Path("/tmp/mutants7").glob("C??_?")):
        mid = d.name
        pid, letter = mid.split("_")
        new_id = f"{pid}_{LET[letter]}"
        if only and mid not in only and new_id not in only:
            continue
        if not (d / "confirm.json").exists():
            print("skip (not confirmed)", mid)
            continue
        tgt = out / new_id
        tgt.mkdir(parents=True, exist_ok=True)
        shutil.copy(d / "patch.diff", tgt / "patch.diff")
        shutil.copy(d / "demo.py", tgt / "demo.py")
        conf = json.loads((d / "confirm.json").read_text())
        what, needs = NEEDS[mid]
        meta = dict(id=new_id, round=7, breaks_property=pid, change=what, needs_to_manifest=needs, source="independent sub-agent given only the property text and a scratch worktree",
                    confirmed=dict(repo_head=conf["head"], patch_applies=conf["applies"], suite_with_change=conf["suite_with_mutant"], demo_exit_clean=conf["demo_clean_rc"], demo_exit_with_change=conf["demo_mutant_rc"],
                                   how="scratch worktree of /repo HEAD, `PYTHONPATH=<wt>/src /venv/bin/python demo.py` before and after `git apply patch.diff`, then the pinned pytest suite with the change"),
                    detected_by=detect(tgt / "patch.diff", pid))
        (tgt / "meta.json").write_text(json.dumps(meta, indent=1) + "\n")
        print(new_id, sorted(meta["detected_by"]), flush=True)


if __name__ == "__main__":
    main()
