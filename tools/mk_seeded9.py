"""Store the round-9 independent mutants (/tmp/mutants9/<Cxx_A|B>) as /verif/seeded/<Cxx_Q|R> with detection results.

Detection is computed with the in-memory overlay runner (zverif.selftest.run_seeded) against ALL 18 checks; only
checks that report a new violation are listed under detected_by (an empty detected_by = not caught, recorded as such).
Re-runnable: `mk_seeded3.py --refresh` recomputes detected_by of the stored E/F entries from /verif/seeded itself.
"""
import json, shutil, sys
from concurrent.futures import ProcessPoolExecutor
from pathlib import Path

sys.path.insert(0, "/verif")
from zverif.selftest import run_seeded  # noqa: E402

NEEDS = {
 "C04_A": ("from_date_spec memoised with lru_cache", "one process compiling the same relative spelling on two different days"),
 "C04_B": ("priority atoms rebind the set instead of pooling into it", "two priority atoms in one AND group"),
 "C07_A": ("after a carry only one 0 is re-appended", "the 5,203rd allocation on one date (0zz -> 1 -> padded 10)"),
 "C07_B": ("next_ids.json keeps only the 366 latest dates", "allocations on 367+ dates, then one on the oldest"),
 "C09_A": ("the `if h1.title` guard removed from the section label", "an H2 section before the page's first H1, grouped by section"),
 "C09_B": ("table-driven _get_header with level >= len(table)", "four GROUP BY dimensions with a non-empty fourth label"),
 "C10_A": ("_note_body_has_tag accepts a prefix followed by a non-alphanumeric character (underscore included)", "an inherited tag X and a body tag X_something"),
 "C10_B": ("delete_note keeps the LAST matching line (break lost)", "moving a note to the bottom of its own page"),
 "C13_A": ("per-page commit dropped in reindex_database", "a kill between the hash-map write and the final commit"),
 "C13_B": ("the modify-date guard reads the old index state", "a kill after a page's commit, re-run: the edited note is not stamped"),
 "C15_A": ("reference names restricted to \\w+", "a saved query named with a dash / slash, referenced after another atom"),
 "C15_B": ("_get_saved_where_filter memoised with lru_cache", "a saved page edited between two expansions in one process"),
 "C16_A": ("make-style mtime shortcut for the stripped template copy (keyed by basename)", "two templates with the same file name in different directories, used in one process"),
 "C16_B": ("the existence guard runs before the path is normalised", "an existing target named relatively / without extension"),
 "C17_A": ("line split with split() instead of split(' ')", "an indented sub-bullet that looks like an item, followed by a ZID"),
 "C17_B": ("pages of an ID collected in a sorted list (no longer de-duplicated)", "an ID owned by two notes of one page"),
}
ALL = [f"C{i:02d}" for i in range(1, 19)]
LET = {"A": "Q", "B": "R"}
out = Path("/verif/seeded")


def detect(patch: Path, pid: str) -> dict:
    jobs = [(f"{patch.parent.name}@{c}", c, str(patch), "/repo") for c in ALL]
    with ProcessPoolExecutor(max_workers=16) as ex:
        rs = list(ex.map(run_seeded, jobs))
    det = {}
    for c, r in zip(ALL, rs):
        if r["status"] == "ok":
            det[c] = dict(violation=True, rules=r["rules"])
    return det


def main() -> None:
    refresh = "--refresh" in sys.argv
    only = {a for a in sys.argv[1:] if not a.startswith("-")}
    if refresh:
        for tgt in sorted(out.glob("C??_[QR]")):
            if only and tgt.name not in only:
                continue
            meta = json.loads((tgt / "meta.json").read_text())
            meta["detected_by"] = detect(tgt / "patch.diff", meta["breaks_property"])
            (tgt / "meta.json").write_text(json.dumps(meta, indent=1) + "\n")
            print(tgt.name, sorted(meta["detected_by"]), flush=True)
        return
    for d in sorted(Path("/tmp/mutants9").glob("C??_?")):
        mid = d.name
        pid, letter = mid.split("_")
        new_id = f"{pid}_{LET[letter]}"
        if only and mid not in only and new_id not in only:
            continue
        if not (d / "confirm.json").exists():
            print("skip (not confirmed)", mid)
            continue
        tgt = out / new_id
        tgt.mkdir(parents=True, exist_ok=True)
        shutil.copy(d / "patch.diff", tgt / "patch.diff")
        shutil.copy(d / "demo.py", tgt / "demo.py")
        conf = json.loads((d / "confirm.json").read_text())
        what, needs = NEEDS[mid]
        meta = dict(id=new_id, round=9, breaks_property=pid, change=what, needs_to_manifest=needs, source="independent sub-agent given only the property text and a scratch worktree",
                    confirmed=dict(repo_head=conf["head"], patch_applies=conf["applies"], suite_with_change=conf["suite_with_mutant"], demo_exit_clean=conf["demo_clean_rc"], demo_exit_with_change=conf["demo_mutant_rc"],
                                   how="scratch worktree of /repo HEAD, `PYTHONPATH=<wt>/src /venv/bin/python demo.py` before and after `git apply patch.diff`, then the pinned pytest suite with the change"),
                    detected_by=detect(tgt / "patch.diff", pid))
        (tgt / "meta.json").write_text(json.dumps(meta, indent=1) + "\n")
        print(new_id, sorted(meta["detected_by"]), flush=True)


if __name__ == "__main__":
    main()
